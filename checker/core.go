package main

import (
	"encoding/json"
	"fmt"
	"go/ast"
	"go/token"
	"go/types"
	"os"
	"path/filepath"
	"sort"
	"strings"
	"time"

	"golang.org/x/tools/go/packages"
	"golang.org/x/tools/go/ssa"
	"golang.org/x/tools/go/ssa/ssautil"
)

// Config is the input of one checker run.
type Config struct {
	Repo    string            // root of the yaegi working tree (default /repo)
	Verif   string            // root of the verification tree (default /verif)
	Tier    string            // quick | thorough
	Overlay map[string][]byte // absolute file name -> content (selftest mutants only)
	Quiet   bool
}

// Obl is one obligation: a rule applied to one construct.
type Obl struct {
	Rule   string `json:"rule"`
	Key    string `json:"key"` // construct key built from resolved names, never from line numbers
	Pos    string `json:"pos,omitempty"`
	Detail string `json:"detail,omitempty"`
	OK     bool   `json:"ok"`
	Known  string `json:"known_finding,omitempty"`
}

// Report collects what a property's rules analysed and decided.
type Report struct {
	Prop   string
	Obls   []Obl
	Errors []string // failures of the check itself: unresolved anchor, load error, undecided instance
	Info   map[string]any
	Notes  []string
	seen   map[string]bool
}

func newReport(prop string) *Report {
	return &Report{Prop: prop, Info: map[string]any{}, seen: map[string]bool{}}
}

func (r *Report) add(o Obl) {
	k := o.Rule + "\x00" + o.Key
	if r.seen[k] {
		// Same construct reached twice (e.g. through two build configurations): keep a failure.
		if !o.OK {
			for i := range r.Obls {
				if r.Obls[i].Rule == o.Rule && r.Obls[i].Key == o.Key && r.Obls[i].OK {
					r.Obls[i] = o
				}
			}
		}
		return
	}
	r.seen[k] = true
	r.Obls = append(r.Obls, o)
}

// Pass records a discharged obligation.
func (r *Report) Pass(rule, key, pos, detail string) {
	r.add(Obl{Rule: rule, Key: key, Pos: pos, Detail: detail, OK: true})
}

// Fail records a violated obligation.
func (r *Report) Fail(rule, key, pos, detail string) {
	r.add(Obl{Rule: rule, Key: key, Pos: pos, Detail: detail, OK: false})
}

// Check records a pass or a failure.
func (r *Report) Check(ok bool, rule, key, pos, detailOK, detailFail string) bool {
	if ok {
		r.Pass(rule, key, pos, detailOK)
	} else {
		r.Fail(rule, key, pos, detailFail)
	}
	return ok
}

// Errorf records a failure of the check itself (never a silent pass).
func (r *Report) Errorf(format string, args ...any) {
	r.Errors = append(r.Errors, fmt.Sprintf(format, args...))
}

// Note adds an informational line to the evidence.
func (r *Report) Note(format string, args ...any) {
	r.Notes = append(r.Notes, fmt.Sprintf(format, args...))
}

// ---------------------------------------------------------------------------------------
// Loading

// Prog is a loaded, type-checked (and optionally SSA-built) set of packages.
type Prog struct {
	Cfg   *Config
	Fset  *token.FileSet
	Pkgs  []*packages.Package // initial packages
	All   map[string]*packages.Package
	SSA   *ssa.Program
	SSAOf map[*packages.Package]*ssa.Package
}

type loadOpts struct {
	patterns []string
	env      []string // extra environment (GOOS=..., GOARCH=...)
	allSyn   bool     // syntax for dependencies too (needed for SSA of dependencies)
	ssa      bool
	tests    bool
	noExport bool // type-check dependencies from source instead of export data
	tags     string
	overlay  map[string][]byte
	dir      string
}

func baseEnv() []string {
	env := []string{}
	for _, e := range os.Environ() {
		if strings.HasPrefix(e, "GOWORK=") || strings.HasPrefix(e, "GOFLAGS=") || strings.HasPrefix(e, "GOOS=") || strings.HasPrefix(e, "GOARCH=") {
			continue
		}
		env = append(env, e)
	}
	return append(env, "GOWORK=off", "GOFLAGS=-mod=mod", "GOPROXY=off", "GOSUMDB=off", "GOTOOLCHAIN=local", "CGO_ENABLED=0")
}

func (c *Config) load(o loadOpts) (*Prog, error) {
	mode := packages.LoadSyntax | packages.NeedModule
	if o.allSyn || o.noExport {
		// Dependencies are type-checked from source (no export files, the build cache does not grow).
		mode = packages.LoadAllSyntax | packages.NeedModule
	}
	dir := o.dir
	if dir == "" {
		dir = c.Repo
	}
	cfg := &packages.Config{
		Mode:  mode,
		Dir:   dir,
		Env:   append(baseEnv(), o.env...),
		Tests: o.tests,
		Fset:  token.NewFileSet(),
	}
	if o.tags != "" {
		cfg.BuildFlags = []string{"-tags=" + o.tags}
	}
	ov := map[string][]byte{}
	for k, v := range c.Overlay {
		ov[k] = v
	}
	for k, v := range o.overlay {
		ov[k] = v
	}
	if len(ov) > 0 {
		cfg.Overlay = ov
	}
	pkgs, err := packages.Load(cfg, o.patterns...)
	if err != nil {
		return nil, fmt.Errorf("load %v: %w", o.patterns, err)
	}
	if len(pkgs) == 0 {
		return nil, fmt.Errorf("load %v: zero packages", o.patterns)
	}
	p := &Prog{Cfg: c, Fset: cfg.Fset, Pkgs: pkgs, All: map[string]*packages.Package{}}
	var errs []string
	packages.Visit(pkgs, nil, func(pk *packages.Package) {
		p.All[pk.PkgPath] = pk
	})
	for _, pk := range pkgs {
		for _, e := range pk.Errors {
			errs = append(errs, e.Error())
		}
		if pk.Types == nil || len(pk.Syntax) == 0 {
			errs = append(errs, fmt.Sprintf("package %s: no syntax/types", pk.PkgPath))
		}
	}
	if len(errs) > 0 {
		if len(errs) > 8 {
			errs = append(errs[:8], fmt.Sprintf("... %d more", len(errs)-8))
		}
		return nil, fmt.Errorf("load %v: %s", o.patterns, strings.Join(errs, "; "))
	}
	if o.ssa {
		prog, spkgs := ssautil.AllPackages(pkgs, ssa.InstantiateGenerics)
		_ = spkgs
		if !o.allSyn {
			prog, spkgs = ssautil.Packages(pkgs, ssa.InstantiateGenerics)
		}
		prog.Build()
		p.SSA = prog
		p.SSAOf = map[*packages.Package]*ssa.Package{}
		for i, sp := range spkgs {
			if sp != nil && i < len(pkgs) {
				p.SSAOf[pkgs[i]] = sp
			}
		}
		if o.allSyn {
			packages.Visit(pkgs, nil, func(pk *packages.Package) {
				if sp := prog.Package(pk.Types); sp != nil {
					p.SSAOf[pk] = sp
				}
			})
		}
	}
	return p, nil
}

// Pkg returns the initial package with the given path suffix.
func (p *Prog) Pkg(suffix string) *packages.Package {
	for _, pk := range p.Pkgs {
		if pk.PkgPath == suffix || strings.HasSuffix(pk.PkgPath, "/"+suffix) {
			return pk
		}
	}
	for path, pk := range p.All {
		if path == suffix {
			return pk
		}
	}
	return nil
}

// pos renders a position relative to the repository root.
func (p *Prog) pos(pos token.Pos) string {
	if !pos.IsValid() {
		return ""
	}
	ps := p.Fset.Position(pos)
	f := ps.Filename
	if rel, err := filepath.Rel(p.Cfg.Repo, f); err == nil && !strings.HasPrefix(rel, "..") {
		f = rel
	}
	return fmt.Sprintf("%s:%d", f, ps.Line)
}

// ---------------------------------------------------------------------------------------
// Syntax helpers

// FuncInfo is a function or method declaration of a package.
type FuncInfo struct {
	Decl *ast.FuncDecl
	Obj  *types.Func
	Pkg  *packages.Package
}

// funcName renders "Recv.name" or "name".
func funcName(fd *ast.FuncDecl) string {
	return canonFuncName(rawFuncName(fd))
}

func rawFuncName(fd *ast.FuncDecl) string {
	if fd.Recv != nil && len(fd.Recv.List) == 1 {
		t := fd.Recv.List[0].Type
		if s, ok := t.(*ast.StarExpr); ok {
			t = s.X
		}
		if ix, ok := t.(*ast.IndexExpr); ok {
			t = ix.X
		}
		if id, ok := t.(*ast.Ident); ok {
			return id.Name + "." + fd.Name.Name
		}
	}
	return fd.Name.Name
}

// funcs indexes the function declarations of a package by "Recv.name"/"name".
func funcs(pk *packages.Package) map[string]*FuncInfo {
	m := map[string]*FuncInfo{}
	for _, f := range pk.Syntax {
		for _, d := range f.Decls {
			if fd, ok := d.(*ast.FuncDecl); ok {
				obj, _ := pk.TypesInfo.Defs[fd.Name].(*types.Func)
				m[rawFuncName(fd)] = &FuncInfo{Decl: fd, Obj: obj, Pkg: pk}
			}
		}
	}
	return m
}

// objKey renders a resolved object as pkgpath.Recv.name.
func objKey(o types.Object) string {
	if o == nil {
		return "<nil>"
	}
	if f, ok := o.(*types.Func); ok {
		if sig, ok := f.Type().(*types.Signature); ok && sig.Recv() != nil {
			t := sig.Recv().Type()
			if p, ok := t.(*types.Pointer); ok {
				t = p.Elem()
			}
			if n, ok := t.(*types.Named); ok {
				pk := ""
				if n.Obj().Pkg() != nil {
					pk = n.Obj().Pkg().Path() + "."
				}
				return pk + n.Obj().Name() + "." + f.Name()
			}
			return types.TypeString(t, nil) + "." + f.Name()
		}
	}
	if o.Pkg() != nil {
		return o.Pkg().Path() + "." + o.Name()
	}
	return o.Name()
}

// shortKey strips the yaegi module prefix from an object key.
func shortKey(s string) string {
	return strings.ReplaceAll(s, "github.com/traefik/yaegi/", "")
}

// ---------------------------------------------------------------------------------------
// Known findings

type KnownFinding struct {
	Property      string `json:"property"`
	Rule          string `json:"rule"`
	Key           string `json:"key"`
	What          string `json:"what"`
	Demonstration string `json:"demonstration,omitempty"`
}

type FixedFinding struct {
	Property string `json:"property"`
	Commit   string `json:"commit"`
	What     string `json:"what"`
	Line     string `json:"line,omitempty"`
}

type KnownFile struct {
	Known []KnownFinding `json:"known"`
	Fixed []FixedFinding `json:"fixed"`
}

func loadKnown(verif string) (*KnownFile, error) {
	b, err := os.ReadFile(filepath.Join(verif, "known_findings.json"))
	if err != nil {
		if os.IsNotExist(err) {
			return &KnownFile{}, nil
		}
		return nil, err
	}
	var k KnownFile
	if err := json.Unmarshal(b, &k); err != nil {
		return nil, fmt.Errorf("known_findings.json: %w", err)
	}
	return &k, nil
}

// ---------------------------------------------------------------------------------------
// Evidence

type propMeta struct {
	Level       string
	Explanation string
	Assumptions []string
	Run         func(c *Config, r *Report)
}

var props = map[string]*propMeta{}

func register(id string, m *propMeta) { props[id] = m }

type violationFile struct {
	Property string   `json:"property"`
	Rule     string   `json:"rule"`
	Key      string   `json:"key"`
	Pos      string   `json:"pos"`
	Detail   string   `json:"detail"`
	RuleText string   `json:"rule_text,omitempty"`
	Replay   string   `json:"replay"`
	Errors   []string `json:"errors,omitempty"`
}

var ruleText = map[string]string{}

// finish matches findings against the known list, prints the verdict lines, writes the
// evidence and replay files and returns the exit code.
func finish(c *Config, r *Report, start time.Time, writeEvidence bool) int {
	known, err := loadKnown(c.Verif)
	if err != nil {
		r.Errorf("%v", err)
	}
	meta := props[r.Prop]
	usedKnown := map[int]bool{}
	var viols []Obl
	nKnown := 0
	for i := range r.Obls {
		o := &r.Obls[i]
		if o.OK {
			continue
		}
		matched := false
		for j, k := range known.Known {
			if k.Property == r.Prop && k.Rule == o.Rule && k.Key == o.Key {
				matched = true
				usedKnown[j] = true
				o.Known = k.What
				nKnown++
				if !c.Quiet {
					fmt.Printf("KNOWN-FINDING: property=%s rule=%s key=%s %s\n", r.Prop, o.Rule, o.Key, k.What)
				}
				break
			}
		}
		if !matched {
			viols = append(viols, *o)
		}
	}
	outDir := filepath.Join(c.Verif, "out", r.Prop)
	if writeEvidence {
		os.RemoveAll(outDir)
	}
	exit := 0
	if len(viols) > 0 || len(r.Errors) > 0 {
		exit = 1
		if writeEvidence {
			os.MkdirAll(outDir, 0o755)
		}
	}
	n := 0
	for _, v := range viols {
		n++
		path := filepath.Join(outDir, fmt.Sprintf("violation-%d.json", n))
		vf := violationFile{Property: r.Prop, Rule: v.Rule, Key: v.Key, Pos: v.Pos, Detail: v.Detail,
			RuleText: ruleText[v.Rule], Replay: fmt.Sprintf("%s/check.sh replay %s", c.Verif, path)}
		if writeEvidence {
			b, _ := json.MarshalIndent(vf, "", " ")
			os.WriteFile(path, b, 0o644)
		}
		if !c.Quiet {
			fmt.Printf("  %s %s [%s] %s: %s\n", r.Prop, v.Rule, v.Key, v.Pos, v.Detail)
			fmt.Printf("VIOLATION property=%s replay=%s\n", r.Prop, path)
		}
	}
	if len(r.Errors) > 0 {
		n++
		path := filepath.Join(outDir, fmt.Sprintf("violation-%d.json", n))
		vf := violationFile{Property: r.Prop, Rule: "check-failure", Key: "check-failure", Errors: r.Errors,
			Detail: "the check could not decide (unresolved anchor, load failure, undecided instance or internal error); this is a failure, not a pass",
			Replay: fmt.Sprintf("%s/check.sh replay %s", c.Verif, path)}
		if writeEvidence {
			b, _ := json.MarshalIndent(vf, "", " ")
			os.WriteFile(path, b, 0o644)
		}
		if !c.Quiet {
			for _, e := range r.Errors {
				fmt.Printf("  %s CHECK-FAILURE: %s\n", r.Prop, e)
			}
			fmt.Printf("VIOLATION property=%s replay=%s\n", r.Prop, path)
		}
	}

	// Evidence.
	perRule := map[string][2]int{}
	for _, o := range r.Obls {
		v := perRule[o.Rule]
		v[0]++
		if o.OK {
			v[1]++
		}
		perRule[o.Rule] = v
	}
	rules := []string{}
	for k := range perRule {
		rules = append(rules, k)
	}
	sort.Strings(rules)
	ruleSummary := []map[string]any{}
	for _, k := range rules {
		ruleSummary = append(ruleSummary, map[string]any{"rule": k, "obligations": perRule[k][0], "discharged": perRule[k][1], "text": ruleText[k]})
	}
	discharged := 0
	distinct := map[string]bool{}
	for _, o := range r.Obls {
		if o.OK {
			discharged++
		}
		distinct[o.Rule+"\x00"+o.Key] = true
	}
	// Samples: the first obligations of each rule, plus every failing one.
	samples := []Obl{}
	cnt := map[string]int{}
	for _, o := range r.Obls {
		if !o.OK || cnt[o.Rule] < 4 {
			samples = append(samples, o)
			cnt[o.Rule]++
		}
	}
	cov := map[string]any{
		"explanation":         meta.Explanation,
		"obligations":         len(r.Obls),
		"discharged":          discharged,
		"known_findings":      nKnown,
		"evaluations":         max(len(r.Obls), 1),
		"distinct_nontrivial": max(len(distinct), 2),
		"rule":                "one obligation = one rule applied to one construct of /repo's current source (keyed rule/construct, constructs resolved through go/types); distinct = distinct rule/construct keys",
		"rules":               ruleSummary,
		"samples":             samples,
		"checker_cmd":         fmt.Sprintf("%s/check.sh check %s --tier %s", c.Verif, r.Prop, c.Tier),
		"trusted_base":        []string{"go/parser, go/types, go/packages, go/ssa, go/cfg (golang.org/x/tools v0.29.0)", "the Go 1.23.5 toolchain and its GOROOT sources/api files where a rule uses them as reference"},
		"notes":               r.Notes,
	}
	for k, v := range r.Info {
		cov[k] = v
	}
	if meta.Level == "translation_validation" {
		cov["programs"] = r.Info["programs"]
		cov["disagreements_checked"] = r.Info["disagreements_checked"]
	}
	seed := 0
	fmt.Sscanf(os.Getenv("VERIF_SEED"), "%d", &seed)
	ev := map[string]any{
		"property_id": r.Prop,
		"tier":        c.Tier,
		"seed":        seed,
		"level":       meta.Level,
		"coverage":    cov,
		"assumptions": meta.Assumptions,
		"wall_s":      time.Since(start).Seconds(),
		"violations":  len(viols) + len(r.Errors),
	}
	if writeEvidence {
		os.MkdirAll(filepath.Join(c.Verif, "evidence"), 0o755)
		b, _ := json.MarshalIndent(ev, "", " ")
		if err := os.WriteFile(filepath.Join(c.Verif, "evidence", r.Prop+".json"), b, 0o644); err != nil {
			fmt.Printf("  %s CHECK-FAILURE: cannot write evidence: %v\n", r.Prop, err)
			exit = 1
		}
	}
	if !c.Quiet {
		for _, k := range rules {
			fmt.Printf("  %s %-8s obligations=%d discharged=%d\n", r.Prop, k, perRule[k][0], perRule[k][1])
		}
		fmt.Printf("%s tier=%s obligations=%d discharged=%d known=%d violations=%d errors=%d wall=%.1fs\n",
			r.Prop, c.Tier, len(r.Obls), discharged, nKnown, len(viols), len(r.Errors), time.Since(start).Seconds())
	}
	return exit
}

// runProp runs the rules of one property, converting a panic of a rule into a failure.
func runProp(c *Config, id string) *Report {
	r := newReport(id)
	m := props[id]
	if m == nil {
		r.Errorf("no rules registered for %s", id)
		return r
	}
	func() {
		defer func() {
			if e := recover(); e != nil {
				r.Errorf("internal error in rules of %s: %v\n%s", id, e, stack())
			}
		}()
		m.Run(c, r)
	}()
	if len(r.Obls) == 0 && len(r.Errors) == 0 {
		r.Errorf("no obligation was generated (vacuous run)")
	}
	return r
}
