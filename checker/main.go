// yverif decides structural clauses of the yaegi properties C01..C19 from the source of
// /repo, without running it. See /verif/DESIGN.md.
package main

import (
	"encoding/json"
	"flag"
	"fmt"
	"os"
	"runtime/debug"
	"sort"
	"time"
)

func stack() string { return string(debug.Stack()) }

func usage() {
	fmt.Fprintln(os.Stderr, "usage: yverif check <Cxx|all> [--tier quick|thorough] | replay <violation.json> | selftest [Cxx] | list")
	os.Exit(2)
}

func main() {
	if len(os.Args) < 2 {
		usage()
	}
	cmd := os.Args[1]
	fs := flag.NewFlagSet(cmd, flag.ExitOnError)
	tier := fs.String("tier", envOr("VERIF_TIER", "quick"), "quick or thorough")
	repo := fs.String("repo", envOr("YVERIF_REPO", "/repo"), "yaegi working tree")
	verif := fs.String("verif", envOr("YVERIF_DIR", "/verif"), "verification tree")
	noEvidence := fs.Bool("no-evidence", false, "do not write evidence/out files")
	var pos []string
	args := os.Args[2:]
	for len(args) > 0 {
		fs.Parse(args)
		args = fs.Args()
		if len(args) > 0 {
			pos = append(pos, args[0])
			args = args[1:]
		}
	}
	if *tier != "quick" && *tier != "thorough" {
		usage()
	}
	c := &Config{Repo: *repo, Verif: *verif, Tier: *tier}
	switch cmd {
	case "anchorsigs":
		// development aid: prints the signature of every by-name anchor (frozen in roles.go)
		ic, err := loadInterp(c, false)
		if err != nil {
			fmt.Println(err)
			os.Exit(2)
		}
		for _, n := range pos {
			if fi := ic.F[n]; fi != nil && fi.Obj != nil {
				fmt.Printf("\t%q: %q,\n", n, sigString(fi.Obj))
			} else {
				fmt.Printf("\t// %s not found\n", n)
			}
		}
	case "list":
		ids := []string{}
		for id := range props {
			ids = append(ids, id)
		}
		sort.Strings(ids)
		for _, id := range ids {
			fmt.Println(id, props[id].Level)
		}
	case "check":
		if len(pos) != 1 {
			usage()
		}
		ids := []string{pos[0]}
		if pos[0] == "all" {
			ids = nil
			for id := range props {
				ids = append(ids, id)
			}
			sort.Strings(ids)
		}
		exit := 0
		for _, id := range ids {
			start := time.Now()
			r := runProp(c, id)
			if c.Tier == "thorough" && len(c.Overlay) == 0 {
				r.Info["checker_selftest"] = sensitivity(c, id)
			}
			if e := finish(c, r, start, !*noEvidence); e != 0 {
				exit = e
			}
		}
		os.Exit(exit)
	case "replay":
		if len(pos) != 1 {
			usage()
		}
		b, err := os.ReadFile(pos[0])
		if err != nil {
			fmt.Println(err)
			os.Exit(2)
		}
		var vf violationFile
		if err := json.Unmarshal(b, &vf); err != nil {
			fmt.Println(err)
			os.Exit(2)
		}
		r := runProp(c, vf.Property)
		exit := 0
		found := false
		for _, o := range r.Obls {
			if o.Rule == vf.Rule && o.Key == vf.Key {
				found = true
				st := "holds"
				if !o.OK {
					st = "VIOLATED"
					exit = 1
				}
				fmt.Printf("%s %s [%s] %s: %s\n  %s\n  rule: %s\n", vf.Property, o.Rule, o.Key, o.Pos, st, o.Detail, ruleText[o.Rule])
			}
		}
		if vf.Rule == "check-failure" {
			for _, e := range r.Errors {
				fmt.Printf("%s CHECK-FAILURE: %s\n", vf.Property, e)
				exit = 1
			}
			found = true
		}
		if !found {
			fmt.Printf("%s %s [%s]: construct no longer present on the current tree\n", vf.Property, vf.Rule, vf.Key)
		}
		os.Exit(exit)
	case "selftest":
		only := ""
		if len(pos) == 1 {
			only = pos[0]
		}
		os.Exit(selftest(c, only))
	default:
		usage()
	}
}

func envOr(k, d string) string {
	if v := os.Getenv(k); v != "" {
		return v
	}
	return d
}
