package main

import (
	"go/ast"
	"go/types"
)

// copiers returns the in-package functions func(reflect.Value) reflect.Value whose body
// allocates with reflect.New and copies with Set (role: "fix an argument value").
func copiers(ic *IC) map[*types.Func]bool {
	out := map[*types.Func]bool{}
	for _, fi := range ic.F {
		if fi.Decl.Body == nil || fi.Obj == nil {
			continue
		}
		sig := fi.Obj.Type().(*types.Signature)
		if sig.Params().Len() != 1 || sig.Results().Len() != 1 ||
			types.TypeString(sig.Params().At(0).Type(), nil) != "reflect.Value" || types.TypeString(sig.Results().At(0).Type(), nil) != "reflect.Value" {
			continue
		}
		hasNew := len(callsIn(ic.Info, fi.Decl.Body, true, "reflect.New")) > 0
		hasSet := len(callsIn(ic.Info, fi.Decl.Body, true, "reflect.Value.Set")) > 0
		if hasNew && hasSet {
			out[fi.Obj] = true
		}
	}
	return out
}

// isFreshValue reports whether e yields a reflect.Value that does not alias a frame slot:
// reflect.New(T).Elem(), a copier call, reflect.MakeFunc/ValueOf/Zero results.
func isFreshValue(ic *IC, cp map[*types.Func]bool, e ast.Expr) bool {
	call, ok := unparen(e).(*ast.CallExpr)
	if !ok {
		return false
	}
	f, _ := calleeOf(ic.Info, call).(*types.Func)
	if f == nil {
		return false
	}
	if cp[f] {
		return true
	}
	switch objKey(f) {
	case "reflect.MakeFunc", "reflect.ValueOf", "reflect.Zero":
		return true
	case "reflect.Value.Elem":
		if se, ok := unparen(call.Fun).(*ast.SelectorExpr); ok {
			if inner, ok := unparen(se.X).(*ast.CallExpr); ok && isCallTo(ic.Info, inner, "reflect.New") {
				return true
			}
		}
	}
	return false
}

type vecStore struct {
	idx ast.Expr
	rhs ast.Expr
	pos ast.Node
}

// vectorStores lists the element stores vec[i] = rhs inside body.
func vectorStores(ic *IC, body ast.Node, vec types.Object) []vecStore {
	var out []vecStore
	ast.Inspect(body, func(n ast.Node) bool {
		as, ok := n.(*ast.AssignStmt)
		if !ok || len(as.Lhs) != len(as.Rhs) {
			return true
		}
		for i, l := range as.Lhs {
			ix, ok := unparen(l).(*ast.IndexExpr)
			if !ok {
				continue
			}
			if id, ok := unparen(ix.X).(*ast.Ident); ok && ic.Info.ObjectOf(id) == vec {
				out = append(out, vecStore{ix.Index, as.Rhs[i], as})
			}
		}
		return true
	})
	return out
}
