package main

import (
	"fmt"
	"go/ast"
	"go/token"
	"go/types"
	"sort"
	"strings"
)

func init() {
	register("C01", &propMeta{
		Level: "other",
		Explanation: "The whole property (output equality over an unbounded family of programs) is not statically decidable here: it depends on the indexes, levels and successor edges that cfg computes per program. Six mechanism clauses that are necessary for it are decided: " +
			"R01.1 the node kinds that push a scope in cfg's pre-order callback are those that pop one in the post-order callback (fileStmt excepted, paired with initScopePkg); R01.2 every closure generated for a short variable declaration allocates a fresh slot (reflect.New) before storing; " +
			"R01.3 the three per-iteration loop-variable generators allocate, copy and install a new variable, and cfg installs them under conditions that depend only on the loop header; R01.4 the AST copier used to instantiate generics copies every field the AST builder sets; " +
			"R01.5 every operator generator uses its action's Go operator (shared with C02/R02.2); R01.6 a multiple assignment evaluates all its sources into fresh temporaries before any destination is written; R01.7 a return with several operands evaluates them all before it sets any result wherever results can be named; R01.8 a run-time closure that stores its node's result stores it on every path that continues (no stale slot); R01.9 both forms of range over a string yield byte offsets; R01.10 a blank range value is never stored; R01.11 the 'i := i' loop-variable shortcut tests its source operand. CFG wiring, the skip-assign optimisations and value semantics - the property's main content - are NOT decided.",
		Assumptions: []string{"closures and frame slots behave as reflect documents", "only the listed mechanisms are decided"},
		Run:         runC01,
	})
	ruleText["R01.1"] = "the set of node kinds whose pre-order case in (*Interpreter).cfg assigns sc = sc.pushBloc()/pushFunc() equals the set whose post-order case assigns sc = sc.pop(), except fileStmt whose scope is pushed by initScopePkg"
	ruleText["R01.2"] = "each run-time closure generated under a test of the node kind against defineStmt/defineXStmt stores reflect.New(T).Elem() into the destination frame slot before setting it"
	ruleText["R01.3"] = "each generator assigned to the hidden loop-variable nodes allocates with reflect.New, copies the iteration variable with Set and stores the new Value into f.data[n.findex]; the conditions under which cfg installs them do not inspect the loop body"
	ruleText["R01.4"] = "copyNode copies (or deliberately re-initialises) every field of node that the AST builder (*Interpreter).ast / addChild sets"
	ruleText["R01.5"] = "same analysis as C02/R02.2: the run-time closures of every operator generator use exactly the Go operator of their action"
	ruleText["R01.7"] = "every closure of the return generator that sets several results and can be installed when the function has named results and the return has several operands evaluates all operand generators before its first store into frame.data (no operand evaluation reachable from a result store in the closure's flow graph)"
	ruleText["R01.8"] = "in every run-time closure of a generator func(n *node) that stores into dest(f) (dest obtained from a gen* value generator applied to n itself), no return of a non-nil successor is reachable from the closure entry without passing such a store"
	ruleText["R01.9"] = "in the range generator, each 'if isString(operand type) {...} else {...}' installs in its string arm a run-time closure that calls utf8.DecodeRuneInString: keys are the byte positions of the runes decoded from the string itself (key-value and key-only forms alike)"
	ruleText["R01.10"] = "in the range generator every store through the frame index of the value child (n.child[1].findex) is inside an if whose condition derives from n.child[1].ident != \"_\""
	ruleText["R01.11"] = "in cfg, the condition guarding the statement that turns a define into a no-op because it redeclares the for/range loop variable mentions the source operand (src.ident / src.kind)"
	ruleText["R01.12"] = "in every run-time closure of a generator func(n *node) that has both successors, an if whose condition is a plain boolean read (x.Bool(), a bool variable, conjunctions, negation) returns tnext when the value is true and fnext when it is false, and a SetBool(literal) directly followed by a return agrees with the successor returned"
	ruleText["R01.13"] = "same analysis as C08/R08.1: no run-time closure writes to a variable captured from its generator (recursion and re-entrancy execute the same closure in several activations)"
	ruleText["R01.15"] = "in the generator of calls, every vararg.Set(v) storing a whole operand (v not built by reflect.Append) into the variadic vector of the callee's frame lies under a condition on the ellipsis flag (n.action == aCallSlice)"
	ruleText["R01.16"] = "in cfg no parallel assignment exchanges two elements of a []*node (the default clause is moved last without displacing another clause), and no assignment of a successor under a test of fallthroughtStmt takes its target by position (X[i+1]) in the clause list"
	ruleText["R01.17"] = "in the post-order case of every for kind with an init clause (kinds read from the AST builder), no assignment other than n.start = init.start has n.start or init.start as its value: no successor edge leads back to the init clause"
	ruleText["R01.19"] = "in every generator whose non-branching closures all store into the node's own frame slot, each closure returning both successors (installed when the value is a branch condition) stores into that slot too"
	ruleText["R01.20"] = "no run-time closure stores (X.Set(v), data[i] = v) a reflect.Value that its generator built once outside the closure with reflect.MakeSlice/MakeMap/MakeChan, directly or through a local function literal called at generation time"
	ruleText["R01.14"] = "in the assignment case of cfg, every statement n.gen = nop (the loop-variable idiom excepted) lies under a condition that is false for n.nleft > 1 / len(n.child) >= 4: the assign operation is skipped for single assignments only"
	ruleText["R01.6"] = "in the multiple-assignment closures of the assignment generator, no loop both evaluates a source generator and writes a destination, and the temporaries receive fresh copies (reflect.New(T).Elem() + Set), never the aliasing result of a source generator"
}

func runC01(c *Config, r *Report) {
	ic, err := loadInterp(c, false)
	if err != nil {
		r.Errorf("%v", err)
		return
	}
	c01R1(ic, r)
	c01R2(ic, r)
	c01R21(ic, r)
	c01R22(ic, r)
	c01R23to26(ic, r)
	c01R27(ic, r)
	c01R28and29(ic, r)
	c01R30(ic, r)
	c01R31(ic, r)
	c01R32(ic, r)
	c01R33(ic, r)
	c01R34(ic, r)
	c01R35(ic, r)
	c01R36(ic, r)
	c01R37(ic, r)
	c01R38(ic, r)
	c01R39and40(ic, r)
	c01R41(ic, r)
	c01R42(ic, r, "R01.42")
	c01R3(ic, r)
	c01R4(ic, r)
	// R01.5 shared with C02
	x := &c02ctx{ic: ic, r: newReport("C02"), actName: map[int64]string{}, spelling: map[int64]string{}, builtin: map[int64]*types.Func{}, constOp: map[int64]*types.Func{}, srcToken: map[int64]token.Token{}, tokenKind: map[int64]string{}, silent: true}
	if x.readTables() {
		x.r1()
		x.r2()
		for _, o := range x.r.Obls {
			if o.Rule == "R02.2" {
				o.Rule = "R01.5"
				r.add(o)
			}
		}
		r.Errors = append(r.Errors, x.r.Errors...)
	} else {
		r.Errors = append(r.Errors, x.r.Errors...)
	}
	c01R6(ic, r)
	c01R7(ic, r)
	c01R8(ic, r, "R01.8", nil)
	c01R9(ic, r)
	c01R10(ic, r)
	c01R11(ic, r)
	c01R12(ic, r)
	c01R14(ic, r, "R01.14")
	c07R14(ic, r, "R01.15")
	c01R16(ic, r)
	c01R17(ic, r)
	c01R19(ic, r)
	c01R20(ic, r)
	c01R2decl(ic, r)
	// R01.13: run-time closures keep no mutable per-statement state (same analysis as
	// C08/R08.1): a statement executed recursively or re-entered through a callback shares
	// whatever its closure wrote into a captured generator variable.
	{
		sub := newReport("C08")
		c08R1(ic, sub)
		for _, o := range sub.Obls {
			o.Rule = "R01.13"
			r.add(o)
		}
		r.Errors = append(r.Errors, sub.Errors...)
	}
}

// kindLabels returns the names of the nkind constants of a case clause.
func kindLabels(ic *IC, cc *ast.CaseClause) []string {
	var out []string
	for _, l := range cc.List {
		if id, ok := unparen(l).(*ast.Ident); ok {
			if c, ok := ic.Info.Uses[id].(*types.Const); ok && isNamed(c.Type(), "nkind") {
				out = append(out, c.Name())
			}
		}
	}
	return out
}

func c01R1(ic *IC, r *Report) {
	fi := ic.fn(r, "Interpreter.cfg")
	if fi == nil {
		return
	}
	push := map[string]token.Pos{}
	pop := map[string]token.Pos{}
	var earlyExits []string
	ast.Inspect(fi.Decl.Body, func(n ast.Node) bool {
		sw, ok := n.(*ast.SwitchStmt)
		if !ok || sw.Tag == nil {
			return true
		}
		if se, ok := unparen(sw.Tag).(*ast.SelectorExpr); !ok || se.Sel.Name != "kind" {
			return true
		}
		// fallthrough chains: a case that falls through contributes its labels to the next
		var pending []string
		for _, st := range sw.Body.List {
			cc := st.(*ast.CaseClause)
			labels := append(pending, kindLabels(ic, cc)...)
			pending = nil
			falls := false
			if len(cc.Body) > 0 {
				if b, ok := cc.Body[len(cc.Body)-1].(*ast.BranchStmt); ok && b.Tok == token.FALLTHROUGH {
					falls = true
				}
			}
			pushes, pops := false, false
			for _, s := range cc.Body {
				ast.Inspect(s, func(m ast.Node) bool {
					if inner, ok := m.(*ast.SwitchStmt); ok && inner != sw {
						if se, ok := unparen(inner.Tag).(*ast.SelectorExpr); ok && inner.Tag != nil && se.Sel.Name == "kind" {
							return false
						}
					}
					as, ok := m.(*ast.AssignStmt)
					if !ok || len(as.Lhs) != 1 || len(as.Rhs) != 1 {
						return true
					}
					call, ok := unparen(as.Rhs[0]).(*ast.CallExpr)
					if !ok {
						return true
					}
					if isCallTo(ic.Info, call, "interp.scope.pushBloc", "interp.scope.pushFunc") {
						pushes = true
					}
					if isCallTo(ic.Info, call, "interp.scope.pop") {
						pops = true
					}
					return true
				})
			}
			// a case that pops does so on every path that is not an error abort: no return or
			// break leaves the case before the pop, unless it is guarded by the pass's error
			if pops {
				var popPos token.Pos
				for _, s := range cc.Body {
					ast.Inspect(s, func(m ast.Node) bool {
						if as, ok := m.(*ast.AssignStmt); ok && len(as.Rhs) == 1 && popPos == token.NoPos {
							if call, ok := unparen(as.Rhs[0]).(*ast.CallExpr); ok && isCallTo(ic.Info, call, "interp.scope.pop") {
								popPos = as.Pos()
							}
						}
						return true
					})
				}
				for _, s := range cc.Body {
					if s.Pos() >= popPos {
						break
					}
					var walk func(n ast.Node, guardedByErr bool, breakable bool)
					walk = func(n ast.Node, guardedByErr bool, breakable bool) {
						switch x := n.(type) {
						case nil:
							return
						case *ast.FuncLit:
							return
						case *ast.IfStmt:
							g := guardedByErr
							ast.Inspect(x.Cond, func(k ast.Node) bool {
								if id, ok := k.(*ast.Ident); ok && isErrorType(ic.Info.TypeOf(id)) {
									g = true
								}
								return true
							})
							if x.Init != nil {
								ast.Inspect(x.Init, func(k ast.Node) bool {
									if id, ok := k.(*ast.Ident); ok && isErrorType(ic.Info.TypeOf(id)) {
										g = true
									}
									return true
								})
							}
							walk(x.Body, g, breakable)
							if x.Else != nil {
								walk(x.Else, g, breakable)
							}
						case *ast.BlockStmt:
							for _, st := range x.List {
								walk(st, guardedByErr, breakable)
							}
						case *ast.ForStmt:
							walk(x.Body, guardedByErr, false)
						case *ast.RangeStmt:
							walk(x.Body, guardedByErr, false)
						case *ast.SwitchStmt:
							for _, st := range x.Body.List {
								for _, b := range st.(*ast.CaseClause).Body {
									walk(b, guardedByErr, false)
								}
							}
						case *ast.ReturnStmt:
							if !guardedByErr && x.Pos() < popPos {
								earlyExits = append(earlyExits, fmt.Sprintf("%s: return at %s before the scope is popped", strings.Join(labels, ","), ic.pos(x.Pos())))
							}
						case *ast.BranchStmt:
							if x.Tok == token.BREAK && breakable && !guardedByErr && x.Pos() < popPos {
								earlyExits = append(earlyExits, fmt.Sprintf("%s: break at %s before the scope is popped", strings.Join(labels, ","), ic.pos(x.Pos())))
							}
						}
					}
					walk(s, false, true)
				}
			}
			for _, l := range labels {
				if pushes {
					push[l] = cc.Pos()
				}
				if pops {
					pop[l] = cc.Pos()
				}
			}
			if falls {
				pending = labels
			}
		}
		return true
	})
	if len(push) < 10 || len(pop) < 10 {
		r.Errorf("R01.1: found %d pushing and %d popping node kinds in (*Interpreter).cfg", len(push), len(pop))
		return
	}
	r.Check(len(earlyExits) == 0, "R01.1", "cfg/scope-popped-on-every-path", ic.pos(fi.Decl.Pos()), "no post-order case leaves before popping its scope (error aborts excepted)",
		strings.Join(earlyExits, "; ")+": the scope of that construct stays on the stack, so the identifiers of the enclosing function remain visible to the code that follows (an undefined identifier is not reported) and frame indexes shift")
	all := map[string]bool{}
	for k := range push {
		all[k] = true
	}
	for k := range pop {
		all[k] = true
	}
	for _, k := range sortedKeys(all) {
		_, hasPush := push[k]
		_, hasPop := pop[k]
		key := "cfg/scope:" + k
		switch {
		case hasPush && hasPop:
			r.Pass("R01.1", key, ic.pos(push[k]), "scope pushed on entry and popped on exit")
		case k == "fileStmt" && hasPop:
			// paired with initScopePkg
			isp := ic.F["Interpreter.initScopePkg"]
			okp := isp != nil && len(callsIn(ic.Info, isp.Decl.Body, true, "interp.scope.pushBloc")) > 0
			r.Check(okp, "R01.1", key, ic.pos(pop[k]), "the package scope is pushed by initScopePkg and popped at the end of the file", "fileStmt pops a scope but initScopePkg does not push one")
		case hasPush:
			r.Fail("R01.1", key, ic.pos(push[k]), "node kind "+k+" pushes a scope in the pre-order pass but no post-order case pops it: every later symbol lookup and frame level in the enclosing function is shifted by one scope (shadowing and closures break)")
		default:
			r.Fail("R01.1", key, ic.pos(pop[k]), "node kind "+k+" pops a scope in the post-order pass but no pre-order case pushes one: the enclosing scope is lost")
		}
	}
}

func c01R2(ic *IC, r *Report) {
	defConsts := map[types.Object]bool{}
	for _, n := range []string{"defineStmt", "defineXStmt"} {
		if o := ic.Pk.Types.Scope().Lookup(n); o != nil {
			defConsts[o] = true
		}
	}
	if len(defConsts) == 0 {
		r.Errorf("anchor not resolved: defineStmt/defineXStmt")
		return
	}
	n := 0
	cnt := map[string]int{}
	for _, name := range sortedKeys(ic.F) {
		fi := ic.F[name]
		if fi.Decl.Body == nil || fi.Decl.Recv != nil {
			continue
		}
		ast.Inspect(fi.Decl.Body, func(nd ast.Node) bool {
			fl, ok := nd.(*ast.FuncLit)
			if !ok || !isFrameClosure(ic.Info, fl) {
				return true
			}
			// is the closure selected under a positive test kind == defineStmt?
			path := enclosingPath(fi.Decl.Body, fl)
			under := false
			for i, p := range path {
				mentions := func(e ast.Node) bool {
					found := false
					ast.Inspect(e, func(m ast.Node) bool {
						if be, ok := m.(*ast.BinaryExpr); ok && be.Op == token.EQL {
							if id, ok := unparen(be.Y).(*ast.Ident); ok && defConsts[ic.Info.Uses[id]] {
								found = true
							}
						}
						return true
					})
					return found
				}
				switch x := p.(type) {
				case *ast.IfStmt:
					if i+1 < len(path) && path[i+1] == ast.Node(x.Body) && mentions(x.Cond) {
						under = true
					}
				case *ast.CaseClause:
					for _, l := range x.List {
						if mentions(l) {
							under = true
						}
					}
				}
			}
			if !under {
				return false
			}
			n++
			cnt[name]++
			key := fmt.Sprintf("%s/define-closure#%d", name, cnt[name])
			// a store  X[i] = reflect.New(...).Elem()
			fresh := false
			ast.Inspect(fl.Body, func(m ast.Node) bool {
				as, ok := m.(*ast.AssignStmt)
				if !ok || len(as.Lhs) != len(as.Rhs) {
					return true
				}
				for i, l := range as.Lhs {
					if _, ok := unparen(l).(*ast.IndexExpr); !ok {
						continue
					}
					if call, ok := unparen(as.Rhs[i]).(*ast.CallExpr); ok && isCallTo(ic.Info, call, "reflect.Value.Elem") {
						if se, ok := unparen(call.Fun).(*ast.SelectorExpr); ok {
							if inner, ok := unparen(se.X).(*ast.CallExpr); ok && isCallTo(ic.Info, inner, "reflect.New") {
								fresh = true
							}
						}
					}
				}
				return true
			})
			r.Check(fresh, "R01.2", key, ic.pos(fl.Pos()), "a fresh variable is allocated for each execution of the declaration",
				"the closure generated by "+name+" for a := declaration does not allocate a fresh slot (no slot = reflect.New(T).Elem()): a closure that captured the variable of a previous execution of the statement sees the new value (per-iteration semantics of loops are lost)")
			return false
		})
	}
	if n < 2 {
		r.Errorf("R01.2: only %d closures generated under a defineStmt test found", n)
	}
}

func c01R3(ic *IC, r *Report) {
	cfgFn := ic.fn(r, "Interpreter.cfg")
	if cfgFn == nil {
		return
	}
	genFld := ic.field("node", "gen")
	// generators assigned to .gen inside the blockStmt pre-order case under a test of the ancestor kind
	type inst struct {
		gen  *types.Func
		as   *ast.AssignStmt
		path []ast.Node
	}
	var insts []inst
	ast.Inspect(cfgFn.Decl.Body, func(n ast.Node) bool {
		as, ok := n.(*ast.AssignStmt)
		if !ok || len(as.Lhs) != 1 || len(as.Rhs) != 1 || selField(ic.Info, as.Lhs[0]) != genFld {
			return true
		}
		id, ok := unparen(as.Rhs[0]).(*ast.Ident)
		if !ok {
			return true
		}
		f, ok := ic.Info.Uses[id].(*types.Func)
		if !ok || !strings.HasPrefix(f.Name(), "loopVar") {
			return true
		}
		insts = append(insts, inst{f, as, enclosingPath(cfgFn.Decl.Body, as)})
		return true
	})
	// installations made by a plain helper of cfg count at each place cfg calls the helper
	for _, hname := range sortedKeys(ic.F) {
		h := ic.F[hname]
		if h == cfgFn || h.Decl.Body == nil || h.Obj == nil || h.Decl.Recv != nil {
			continue
		}
		var found []*ast.AssignStmt
		ast.Inspect(h.Decl.Body, func(n ast.Node) bool {
			as, ok := n.(*ast.AssignStmt)
			if !ok || len(as.Lhs) != 1 || len(as.Rhs) != 1 || selField(ic.Info, as.Lhs[0]) != genFld {
				return true
			}
			if id, ok := unparen(as.Rhs[0]).(*ast.Ident); ok {
				if f, ok := ic.Info.Uses[id].(*types.Func); ok && strings.HasPrefix(f.Name(), "loopVar") {
					found = append(found, as)
				}
			}
			return true
		})
		if len(found) == 0 {
			continue
		}
		// the helper installs for whichever statement calls it: the cases of cfg are credited with
		// the installation at their call, so the helper must not opt out by the kind of statement
		// (no return before the installation, no test of the statement's kind on the way)
		for _, as := range found {
			why := ""
			ast.Inspect(h.Decl.Body, func(m ast.Node) bool {
				if rs, ok := m.(*ast.ReturnStmt); ok && rs.Pos() < as.Pos() {
					why = "the return at " + ic.pos(rs.Pos()) + " leaves before it"
				}
				return true
			})
			for _, g := range pathGuards(h.Decl.Body, as) {
				ast.Inspect(g.cond, func(q ast.Node) bool {
					if se, ok := q.(*ast.SelectorExpr); ok {
						if v := selField(ic.Info, se); v != nil && (v.Name() == "kind" || v.Name() == "action") {
							why = "it is under the test " + types.ExprString(g.cond)
						}
					}
					return true
				})
			}
			gname := types.ExprString(as.Rhs[0])
			r.Check(why == "", "R01.3", h.Obj.Name()+"/installs-"+gname+"-for-every-statement-kind", ic.pos(as.Pos()), "the helper installs the generator whatever the kind of the statement",
				"the helper "+h.Obj.Name()+", which the cases of cfg call to install "+gname+", does not install it for every kind of statement: "+why+". For the kinds left out the body works on per-iteration copies which are never copied back (or never made): in for i := 0; ; { i++; if i > 2 { break } } the assignments of the body are lost and the loop never ends")
		}
		for _, c := range allCalls(cfgFn.Decl.Body) {
			if f, ok := calleeOf(ic.Info, c).(*types.Func); ok && f == h.Obj {
				for _, as := range found {
					g := ic.Info.Uses[unparen(as.Rhs[0]).(*ast.Ident)].(*types.Func)
					insts = append(insts, inst{g, as, enclosingPath(cfgFn.Decl.Body, c)})
				}
			}
		}
	}
	// the copy-back class: a generator that allocates nothing and sets one frame slot from
	// another (the loop variable takes the value of the body's copy before the post statement)
	isBack := func(f *types.Func) bool {
		fi := ic.G.Funcs[f]
		if fi == nil || fi.Decl.Body == nil {
			return false
		}
		if len(callsIn(ic.Info, fi.Decl.Body, true, "reflect.New")) > 0 {
			return false
		}
		found := false
		for _, c := range callsIn(ic.Info, fi.Decl.Body, true, "reflect.Value.Set") {
			slot := func(e ast.Expr) bool {
				ix, ok := unparen(e).(*ast.IndexExpr)
				if !ok {
					return false
				}
				v := selField(ic.Info, ix.X)
				return v != nil && v.Name() == "data"
			}
			if se, ok := unparen(c.Fun).(*ast.SelectorExpr); ok && len(c.Args) == 1 && slot(se.X) && slot(c.Args[0]) {
				found = true
			}
		}
		return found
	}
	var backs []inst
	{
		var ins []inst
		for _, in := range insts {
			if isBack(in.gen) {
				backs = append(backs, in)
			} else {
				ins = append(ins, in)
			}
		}
		insts = ins
	}
	if len(insts) < 3 {
		// role fallback: generators whose closure stores a reflect.New value into f.data[n.findex]
		r.Errorf("R01.3: %d installations of per-iteration loop-variable generators found in cfg (range key, range value, 3-clause for expected)", len(insts))
		return
	}
	// the 3-clause for statement has a post statement that works on the loop variable itself:
	// the body's copy must flow back before it. The copy-back is installed in a case of the
	// for statement with init, condition and post, on a node both the end of the body and a
	// continue statement reach.
	// every variable defined by the init clause gets its copy: the generator making the copy for
	// a 3-clause for statement (the non-range one) is installed inside a loop over the variables
	// of the init clause, not for its first variable only
	for _, in := range insts {
		if isBack(in.gen) {
			continue
		}
		underRange := false
		inLoop := false
		for _, p := range in.path {
			switch x := p.(type) {
			case *ast.IfStmt:
				if strings.Contains(types.ExprString(x.Cond), "rangeStmt") {
					underRange = true
				}
			case *ast.RangeStmt, *ast.ForStmt:
				inLoop = true
			}
		}
		if underRange || !strings.Contains(strings.ToLower(in.gen.Name()), "for") {
			continue
		}
		r.Check(inLoop, "R01.3", "cfg/for-init/every-variable-gets-a-copy", ic.pos(in.as.Pos()), "the per-iteration copy is installed for each variable of the init clause",
			"cfg installs the per-iteration copy of a 3-clause for statement for one variable of the init clause only (the installation of "+in.gen.Name()+" is not inside a loop over the variables the init clause defines): in for i, j := 0, 10; i < 3; i, j = i+1, j+1 { fs = append(fs, func() int { return i*100 + j }) } the closures share one j (13 113 213 instead of 10 111 212)")
	}
	for _, kind := range sortedKeys(forKindsWithInit(ic)) {
		okBack := false
		where := ""
		for _, b := range backs {
			for _, p := range b.path {
				if cc, ok := p.(*ast.CaseClause); ok {
					for _, e := range cc.List {
						if id, ok := unparen(e).(*ast.Ident); ok && id.Name == kind {
							okBack = true
							where = ic.pos(b.as.Pos())
						}
					}
				}
			}
		}
		r.Check(okBack, "R01.3", "cfg/"+kind+"/copy-back-before-post", ic.pos(cfgFn.Decl.Pos()), "the loop variables take the value of the body's per-iteration copies at the end of the body ("+where+")",
			"the "+kind+" case of cfg installs no generator copying the per-iteration copies of the loop variables back at the end of the body (this kind of for statement has an init clause, so since go1.22 each iteration has its own copy of the variables it defines): either the body does not work on a copy at all, and closures created in different iterations share one variable (for i := 0; ; i++ { fs = append(fs, func() int { return i }) } yields 3 3 3), or assignments made by the body are lost")
	}
	walk := ic.F["node.Walk"]
	reachesWalk := func(e ast.Node) string {
		bad := ""
		ast.Inspect(e, func(m ast.Node) bool {
			call, ok := m.(*ast.CallExpr)
			if !ok {
				return true
			}
			f, _ := calleeOf(ic.Info, call).(*types.Func)
			if f == nil || f.Pkg() != ic.Pk.Types {
				return true
			}
			if walk != nil && f == walk.Obj {
				bad = "Walk"
			}
			if fi := ic.G.Funcs[f]; fi != nil && fi.Decl.Body != nil && walk != nil {
				if len(callsIn(ic.Info, fi.Decl.Body, true, "interp.node.Walk")) > 0 {
					bad = f.Name() + " (walks the subtree)"
				}
			}
			return true
		})
		return bad
	}
	for _, in := range insts {
		key := "cfg/installs:" + in.gen.Name()
		bad := ""
		for i, p := range in.path {
			if ifs, ok := p.(*ast.IfStmt); ok && i+1 < len(in.path) {
				if b := reachesWalk(ifs.Cond); b != "" {
					bad = "the condition " + types.ExprString(ifs.Cond) + " calls " + b
				}
				// conditions through locals: one level
				ast.Inspect(ifs.Cond, func(m ast.Node) bool {
					if id, ok := m.(*ast.Ident); ok {
						if v, ok := ic.Info.Uses[id].(*types.Var); ok && types.Identical(v.Type(), types.Typ[types.Bool]) {
							ast.Inspect(cfgFn.Decl.Body, func(k ast.Node) bool {
								if as, ok := k.(*ast.AssignStmt); ok && len(as.Lhs) == 1 && len(as.Rhs) == 1 {
									if lid, ok := as.Lhs[0].(*ast.Ident); ok && ic.Info.ObjectOf(lid) == v {
										if b := reachesWalk(as.Rhs[0]); b != "" {
											bad = "the condition variable " + v.Name() + " is computed with " + b
										}
									}
								}
								return true
							})
						}
					}
					return true
				})
			}
		}
		r.Check(bad == "", "R01.3", key, ic.pos(in.as.Pos()), "installed for every loop of that form, whatever its body",
			"the per-iteration copy of the loop variable ("+in.gen.Name()+") is installed conditionally on the content of the loop body: "+bad+": in loops where it is not installed, &v taken in different iterations is the same variable and assignments to a range key change the iteration")
	}
	// each generator allocates, copies and installs
	seen := map[*types.Func]bool{}
	for _, in := range insts {
		if seen[in.gen] {
			continue
		}
		seen[in.gen] = true
		fi := ic.G.Funcs[in.gen]
		if fi == nil {
			continue
		}
		okNew, okSet, okStore := true, true, true
		cls := (&c02ctx{ic: ic}).closuresOf(fi)
		if len(cls) == 0 {
			okNew, okSet, okStore = false, false, false
		}
		// every run-time closure of the generator: a variant chosen at generation time that reuses
		// one location for all iterations (an "escape analysis" of the loop body) is the old semantics
		for _, fl := range cls {
			cNew, cSet, cStore := false, false, false
			var nv types.Object
			ast.Inspect(fl.Body, func(m ast.Node) bool {
				as, ok := m.(*ast.AssignStmt)
				if !ok || len(as.Lhs) != 1 || len(as.Rhs) != 1 {
					return true
				}
				if call, ok := unparen(as.Rhs[0]).(*ast.CallExpr); ok && isCallTo(ic.Info, call, "reflect.Value.Elem") {
					if se, ok := unparen(call.Fun).(*ast.SelectorExpr); ok {
						if inner, ok := unparen(se.X).(*ast.CallExpr); ok && isCallTo(ic.Info, inner, "reflect.New") {
							cNew = true
							if id, ok := as.Lhs[0].(*ast.Ident); ok {
								nv = ic.Info.ObjectOf(id)
							}
						}
					}
				}
				return true
			})
			ast.Inspect(fl.Body, func(m ast.Node) bool {
				switch x := m.(type) {
				case *ast.CallExpr:
					if isCallTo(ic.Info, x, "reflect.Value.Set") {
						if se, ok := unparen(x.Fun).(*ast.SelectorExpr); ok {
							if id, ok := unparen(se.X).(*ast.Ident); ok && ic.Info.ObjectOf(id) == nv && nv != nil {
								cSet = true
							}
						}
					}
				case *ast.AssignStmt:
					if len(x.Lhs) == 1 && len(x.Rhs) == 1 {
						if ix, ok := unparen(x.Lhs[0]).(*ast.IndexExpr); ok {
							if v := selField(ic.Info, ix.X); v != nil && v.Name() == "data" {
								if iv := selField(ic.Info, ix.Index); iv != nil && iv.Name() == "findex" {
									if id, ok := unparen(x.Rhs[0]).(*ast.Ident); ok && ic.Info.ObjectOf(id) == nv && nv != nil {
										cStore = true
									}
								}
							}
						}
					}
				}
				return true
			})
			okNew, okSet, okStore = okNew && cNew, okSet && cSet, okStore && cStore
		}
		r.Check(okNew && okSet && okStore, "R01.3", in.gen.Name()+"/fresh-copy", ic.pos(fi.Decl.Pos()), "allocates a new variable, copies the iteration value, installs it in the node's slot",
			fmt.Sprintf("generator %s, in each of its run-time closures: allocates with reflect.New: %v, copies with Set: %v, stores the new Value into f.data[n.findex]: %v: the body of each iteration does not get its own copy of the loop variable (a variant selected at generation time counts: whether the copy is needed cannot be decided from the loop body - s := a[:] and pointer-receiver calls take the address too)", in.gen.Name(), okNew, okSet, okStore))
	}
}

func c01R4(ic *IC, r *Report) {
	cp := ic.fn(r, "copyNode")
	if cp == nil {
		return
	}
	nodeT := ic.Pk.Types.Scope().Lookup("node")
	if nodeT == nil {
		r.Errorf("anchor not resolved: type node")
		return
	}
	st := nodeT.Type().Underlying().(*types.Struct)
	fieldsOfLit := func(cl *ast.CompositeLit) map[string]bool {
		m := map[string]bool{}
		for _, e := range cl.Elts {
			if kv, ok := e.(*ast.KeyValueExpr); ok {
				if id, ok := kv.Key.(*ast.Ident); ok {
					m[id.Name] = true
				}
			}
		}
		return m
	}
	// fields set by the AST builder: composite literals of node in ast()/addChild plus assignments
	// to fields of freshly built nodes inside (*Interpreter).ast
	built := map[string]token.Pos{}
	for _, name := range []string{"Interpreter.ast", "addChild"} {
		fi := ic.F[name]
		if fi == nil || fi.Decl.Body == nil {
			continue
		}
		ast.Inspect(fi.Decl.Body, func(n ast.Node) bool {
			switch x := n.(type) {
			case *ast.CompositeLit:
				if types.Identical(ic.Info.TypeOf(x), nodeT.Type()) {
					for f := range fieldsOfLit(x) {
						if _, ok := built[f]; !ok {
							built[f] = x.Pos()
						}
					}
				}
			case *ast.AssignStmt:
				for _, l := range x.Lhs {
					if v := selField(ic.Info, l); v != nil {
						for i := 0; i < st.NumFields(); i++ {
							if st.Field(i) == v {
								if _, ok := built[v.Name()]; !ok {
									built[v.Name()] = x.Pos()
								}
							}
						}
					}
				}
			}
			return true
		})
	}
	if len(built) < 8 {
		r.Errorf("R01.4: only %d node fields found to be set by the AST builder", len(built))
		return
	}
	copied := map[string]bool{}
	ast.Inspect(cp.Decl.Body, func(n ast.Node) bool {
		switch x := n.(type) {
		case *ast.CompositeLit:
			if types.Identical(ic.Info.TypeOf(x), nodeT.Type()) {
				for f := range fieldsOfLit(x) {
					copied[f] = true
				}
			}
		case *ast.AssignStmt:
			for _, l := range x.Lhs {
				if v := selField(ic.Info, l); v != nil {
					copied[v.Name()] = true
				}
			}
		}
		return true
	})
	var names []string
	for f := range built {
		names = append(names, f)
	}
	sort.Strings(names)
	for _, f := range names {
		r.Check(copied[f], "R01.4", "copyNode/field:"+f, ic.pos(built[f]), "set by the AST builder and handled by the AST copier",
			"the AST builder sets node."+f+" (at "+ic.pos(built[f])+") but copyNode neither copies nor re-initialises it: the copy used to instantiate a generic function or type differs from a freshly parsed tree, so code in instantiated generics behaves differently from the same code outside generics")
	}
}

func c01R6(ic *IC, r *Report) {
	fi := ic.fn(r, "assign")
	if fi == nil {
		return
	}
	cp := copiers(ic)
	// the slices of source and destination generators: []func(*frame) reflect.Value locals
	isGenSlice := func(o types.Object) bool {
		v, ok := o.(*types.Var)
		if !ok {
			return false
		}
		s, ok := v.Type().Underlying().(*types.Slice)
		if !ok {
			return false
		}
		sig, ok := s.Elem().Underlying().(*types.Signature)
		return ok && sig.Params().Len() == 1 && isNamed(sig.Params().At(0).Type(), "frame")
	}
	// source generators: the slice whose elements come from genDestValue/genFuncValue on the source child
	var srcSlice types.Object
	ast.Inspect(fi.Decl.Body, func(n ast.Node) bool {
		as, ok := n.(*ast.AssignStmt)
		if !ok || len(as.Lhs) != 1 || len(as.Rhs) != 1 {
			return true
		}
		ix, ok := unparen(as.Lhs[0]).(*ast.IndexExpr)
		if !ok {
			return true
		}
		id, ok := unparen(ix.X).(*ast.Ident)
		if !ok || !isGenSlice(ic.Info.ObjectOf(id)) {
			return true
		}
		if call, ok := unparen(as.Rhs[0]).(*ast.CallExpr); ok && isCallTo(ic.Info, call, "interp.genDestValue", "interp.genFuncValue") {
			srcSlice = ic.Info.ObjectOf(id)
		}
		return true
	})
	if srcSlice == nil {
		r.Errorf("R01.6: the slice of source generators of the assignment generator was not identified")
		return
	}
	// local helpers of the generator that evaluate a source: h := func(f *frame, i int) reflect.Value { ... svalue[i](f) ... }
	evalHelpers := map[types.Object]*ast.FuncLit{}
	ast.Inspect(fi.Decl.Body, func(m ast.Node) bool {
		as, ok := m.(*ast.AssignStmt)
		if !ok || len(as.Lhs) != 1 || len(as.Rhs) != 1 {
			return true
		}
		lit, ok := unparen(as.Rhs[0]).(*ast.FuncLit)
		id := identOf(as.Lhs[0])
		if !ok || id == nil {
			return true
		}
		uses := false
		ast.Inspect(lit.Body, func(q ast.Node) bool {
			if c, ok := q.(*ast.CallExpr); ok {
				if ix, ok := unparen(c.Fun).(*ast.IndexExpr); ok {
					if bid := identOf(ix.X); bid != nil && ic.Info.ObjectOf(bid) == srcSlice {
						uses = true
					}
				}
			}
			return true
		})
		if uses {
			evalHelpers[ic.Info.ObjectOf(id)] = lit
		}
		return true
	})
	// the helper returns a fresh copy on every path: each return gives a fresh value or a local
	// whose only definition is a fresh value
	helperFresh := func(lit *ast.FuncLit) bool {
		okAll, nRet := true, 0
		ast.Inspect(lit.Body, func(q ast.Node) bool {
			if fl2, ok := q.(*ast.FuncLit); ok && fl2 != lit {
				return false
			}
			rs, ok := q.(*ast.ReturnStmt)
			if !ok {
				return true
			}
			nRet++
			if len(rs.Results) != 1 {
				okAll = false
				return true
			}
			if isFreshValue(ic, cp, rs.Results[0]) {
				return true
			}
			id := identOf(rs.Results[0])
			if id == nil {
				okAll = false
				return true
			}
			obj := ic.Info.ObjectOf(id)
			defs, fresh := 0, 0
			ast.Inspect(lit.Body, func(d ast.Node) bool {
				if as, ok := d.(*ast.AssignStmt); ok && len(as.Lhs) == len(as.Rhs) {
					for i, l := range as.Lhs {
						if lid := identOf(l); lid != nil && ic.Info.ObjectOf(lid) == obj {
							defs++
							if isFreshValue(ic, cp, as.Rhs[i]) {
								fresh++
							}
						}
					}
				}
				return true
			})
			if defs == 0 || defs != fresh {
				okAll = false
			}
			return true
		})
		return okAll && nRet > 0
	}
	n := 0
	for _, fl := range (&c02ctx{ic: ic}).closuresOf(fi) {
		if func() bool {
			for _, lit := range evalHelpers {
				if lit == fl {
					return true
				}
			}
			return false
		}() {
			continue
		}
		// temporaries: local slices created by make in this closure
		temps := map[types.Object]bool{}
		ast.Inspect(fl.Body, func(m ast.Node) bool {
			as, ok := m.(*ast.AssignStmt)
			if !ok || as.Tok != token.DEFINE || len(as.Lhs) != len(as.Rhs) {
				return true
			}
			for i, l := range as.Lhs {
				if call, ok := unparen(as.Rhs[i]).(*ast.CallExpr); ok {
					if fid, ok := call.Fun.(*ast.Ident); ok && fid.Name == "make" {
						if id, ok := l.(*ast.Ident); ok {
							temps[ic.Info.ObjectOf(id)] = true
						}
					}
				}
			}
			return true
		})
		// loops over the source generators
		var problems []string
		multi := false
		ast.Inspect(fl.Body, func(m ast.Node) bool {
			// any loop of the closure: a loop over the sources, or a loop over the destinations
			// (or a counting loop) that evaluates the sources by index
			var rsBody *ast.BlockStmt
			var sv types.Object
			switch lp := m.(type) {
			case *ast.RangeStmt:
				rsBody = lp.Body
				if id, ok := unparen(lp.X).(*ast.Ident); ok && ic.Info.ObjectOf(id) == srcSlice {
					multi = true
					if vid, ok := lp.Value.(*ast.Ident); ok {
						sv = ic.Info.ObjectOf(vid)
					}
				}
			case *ast.ForStmt:
				rsBody = lp.Body
			default:
				return true
			}
			rs := struct{ Body *ast.BlockStmt }{rsBody}
			// does this loop evaluate the sources (call the range value or an element of the slice)?
			evaluates := false
			ast.Inspect(rs.Body, func(k ast.Node) bool {
				call, ok := k.(*ast.CallExpr)
				if !ok {
					return true
				}
				switch fx := unparen(call.Fun).(type) {
				case *ast.Ident:
					if sv != nil && ic.Info.ObjectOf(fx) == sv {
						evaluates = true
					}
					if evalHelpers[ic.Info.ObjectOf(fx)] != nil {
						evaluates = true
					}
				case *ast.IndexExpr:
					if bid, ok := unparen(fx.X).(*ast.Ident); ok && ic.Info.ObjectOf(bid) == srcSlice {
						evaluates = true
					}
				}
				return true
			})
			if !evaluates {
				return true
			}
			multi = true
			// stores in the loop body
			ast.Inspect(rs.Body, func(k ast.Node) bool {
				switch x := k.(type) {
				case *ast.AssignStmt:
					for i, l := range x.Lhs {
						ix, ok := unparen(l).(*ast.IndexExpr)
						if !ok || i >= len(x.Rhs) {
							continue
						}
						base := rootIdent(ix.X)
						if base == nil {
							continue
						}
						bo := ic.Info.ObjectOf(base)
						// local temporary vector created in this closure?
						local := bo != nil && bo.Pos() >= fl.Pos() && bo.Pos() < fl.End()
						isData := false
						if v := selField(ic.Info, ix.X); v != nil && v.Name() == "data" {
							isData = true
						}
						if bv, ok := bo.(*types.Var); ok && !isData && temps[bo] {
							if s, ok := bv.Type().Underlying().(*types.Slice); ok && types.TypeString(s.Elem(), nil) == "reflect.Value" && local {
								// temporary: must receive a fresh value
								viaHelper := false
								if hc, ok := unparen(x.Rhs[i]).(*ast.CallExpr); ok {
									if hid := identOf(hc.Fun); hid != nil {
										if lit := evalHelpers[ic.Info.ObjectOf(hid)]; lit != nil && helperFresh(lit) {
											viaHelper = true
										}
									}
								}
								if !viaHelper && !isFreshValue(ic, cp, x.Rhs[i]) {
									problems = append(problems, "the temporary "+types.ExprString(l)+" receives "+types.ExprString(x.Rhs[i])+" at "+ic.pos(x.Pos())+" (not a fresh copy: it aliases the source's storage)")
								}
								continue
							}
						}
						problems = append(problems, "the loop evaluating the sources also writes the destination "+types.ExprString(l)+" at "+ic.pos(x.Pos()))
					}
				case *ast.CallExpr:
					if isCallTo(ic.Info, x, "reflect.Value.Set", "reflect.Value.SetMapIndex") {
						se := unparen(x.Fun).(*ast.SelectorExpr)
						base := rootIdent(se.X)
						if base == nil {
							// the receiver is the result of a generator call, d(f): a destination
							if _, isCall := unparen(se.X).(*ast.CallExpr); isCall {
								uses := false
								for _, a := range x.Args {
									ast.Inspect(a, func(q ast.Node) bool {
										if qid, ok := q.(*ast.Ident); ok && ((sv != nil && ic.Info.ObjectOf(qid) == sv) || ic.Info.ObjectOf(qid) == srcSlice) {
											uses = true
										}
										return true
									})
								}
								if uses {
									problems = append(problems, "the loop evaluating the sources sets a destination directly ("+types.ExprString(x)+" at "+ic.pos(x.Pos())+")")
								}
							}
							return true
						}
						bo := ic.Info.ObjectOf(base)
						local := bo != nil && bo.Pos() >= fl.Pos() && bo.Pos() < fl.End()
						isTmp := false
						if bv, ok := bo.(*types.Var); ok && local && temps[bo] {
							if s, ok := bv.Type().Underlying().(*types.Slice); ok && types.TypeString(s.Elem(), nil) == "reflect.Value" {
								isTmp = true
							}
						}
						usesSrc := false
						for _, a := range x.Args {
							ast.Inspect(a, func(q ast.Node) bool {
								if qid, ok := q.(*ast.Ident); ok && ((sv != nil && ic.Info.ObjectOf(qid) == sv) || ic.Info.ObjectOf(qid) == srcSlice) {
									usesSrc = true
								}
								return true
							})
						}
						if !isTmp && usesSrc {
							problems = append(problems, "the loop evaluating the sources sets a destination directly ("+types.ExprString(x)+" at "+ic.pos(x.Pos())+")")
						}
					}
				}
				return true
			})
			return true
		})
		if !multi {
			continue
		}
		n++
		r.Check(len(problems) == 0, "R01.6", fmt.Sprintf("assign/multi-closure#%d", n), ic.pos(fl.Pos()), "all sources are copied into fresh temporaries before any destination is written",
			"multiple assignment: "+strings.Join(problems, "; ")+": when a destination is also a source (a, b = b, a; x, y := y, x with x redeclared) a source is read after it was overwritten")
	}
	if n < 2 {
		r.Errorf("R01.6: %d multiple-assignment closures found in the assignment generator (assign and define forms expected)", n)
	}
}
