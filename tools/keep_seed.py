#!/usr/bin/env python3
"""keep_seed.py <src-dir> <id> <property> <placement> <test-regex> <caught-by> <needs>
Copies a confirmed seeded change into /verif/seeded/<id>/ with its meta.json."""
import sys, os, shutil, json, glob, subprocess
src, sid, prop, place, rx, caught, needs = sys.argv[1:8]
if needs == '-' and os.path.exists(src + '/README.md'):
    import re
    txt = open(src + '/README.md').read()
    m = re.search(r'^#+[^\n]*(needs|manifest|trigger)[^\n]*\n(.*?)(?=^#|\Z)', txt, re.S | re.M | re.I)
    needs = ' '.join(m.group(2).split())[:700] if m else ' '.join(txt.split())[:400]
dst = '/verif/seeded/' + sid
os.makedirs(dst, exist_ok=True)
shutil.copy(src + '/patch.diff', dst + '/patch.diff')
demos = []
for f in glob.glob(src + '/*_test.go') + glob.glob(src + '/*.go'):
    if os.path.basename(f) not in demos:
        shutil.copy(f, dst + '/' + os.path.basename(f) + '.txt'); demos.append(os.path.basename(f))
if os.path.exists(src + '/README.md'):
    shutil.copy(src + '/README.md', dst + '/README.md')
head = subprocess.check_output(['git', '-C', '/repo', 'rev-parse', '--short', 'HEAD']).decode().strip()
meta = {
 "id": sid, "property": prop,
 "breaks": open(src + '/README.md').read().split('\n')[0].lstrip('# ') if os.path.exists(src + '/README.md') else "",
 "needs_to_manifest": needs,
 "demonstration": {"files": [d + '.txt' for d in demos], "place_in": place, "run": "go test -count=1 -run '%s' ./%s" % (rx, place), "note": "demo files are stored with a .txt suffix so that they are not compiled with /verif; copy them without it"},
 "confirmed": {"how": "tools/verify_seed.sh in a scratch worktree of /repo: demo passes on the clean tree, patch applies, go build ./... && go vet ./interp ok, demo fails with the patch, all 2191 stable_pass tests still pass", "repo_head_when_confirmed": head},
 "detected_by": caught,
 "source": "independent sub-agent given only the property text and a scratch worktree",
}
json.dump(meta, open(dst + '/meta.json', 'w'), indent=1)
print('kept', sid)
