package main

import (
	"fmt"
	"go/ast"
	"go/types"
	"strings"
)

// C04 - values are copied or shared exactly as Go prescribes.
//
// What a reflect.Value aliases is a run-time fact and is not decided. The clauses below are
// the structural necessary conditions of the copy side of the property: the places where the
// interpreter must detach a value (temporaries, activation slots, per-evaluation allocation,
// the range shadow copy, closure capture) do so on every path. Most are the same analyses as
// clauses of C01/C05/C08/C11, reported here under their own rule ids.

func init() {
	register("C04", &propMeta{
		Level: "other",
		Explanation: "Structural necessary conditions of the copying half of the property; whether an Index/Field result aliases its container at run time, and the behaviour of append/copy/slicing (delegated to reflect), are NOT decided. " +
			"R04.1 a multiple assignment evaluates all sources into fresh temporaries before writing any destination (same analysis as C01/R01.6); R04.2 a multi-value return evaluates all operands before setting any result (C01/R01.7); " +
			"R04.3 the slots of every frame created for an activation are bound to fresh storage only, so arguments and receivers are copied in (C05/R05.2); R04.4 no run-time closure writes, or mutates through reflect setters, a value captured from its generator: composite literals and results are allocated per evaluation (C08/R08.1); " +
			"R04.5 a range statement iterates over a detached copy of an array operand: every non-string operand of the range generator goes through the copying generator, whose default case rebuilds the value from Interface(); " +
			"R04.8 no frame slot is rebound to the plain result of a value generator (two variables sharing storage); R04.6 closure values capture a clone of their defining frame (C11/R11.5); R04.7 an expression's result is stored on every path of its run-time closure, so a map lookup that misses yields the zero value and not the previous hit (C01/R01.8).",
		Assumptions: []string{"reflect.Value.Set copies arrays and structs; Interface() detaches a value from its container", "only the listed copy points are decided"},
		Run:         runC04,
	})
	ruleText["R04.1"] = "same analysis as C01/R01.6 (multiple assignment: sources into fresh temporaries first)"
	ruleText["R04.2"] = "same analysis as C01/R01.7 (multi-value return: operands before results)"
	ruleText["R04.3"] = "same analysis as C05/R05.2 (slots of a new activation frame bound to fresh storage only)"
	ruleText["R04.4"] = "same analysis as C08/R08.1 (no write to, and no reflect setter on, a variable captured from the generator)"
	ruleText["R04.5"] = "in the range generator every non-string operand is evaluated through genValueRangeArray, and the default case of genValueRangeArray returns reflect.ValueOf(value(f).Interface())"
	ruleText["R04.6"] = "same analysis as C11/R11.5 (closure values capture a clone of the defining frame)"
	ruleText["R04.8"] = "in no run-time closure is a frame slot (frame.data[i], directly or through a local alias of the vector) assigned the plain result v(f) of a value generator; frozen exception: the result slots of an interpreted call (call: rvalues)"
	ruleText["R04.7"] = "same analysis as C01/R01.8 (result stored on every path of the run-time closure)"
}

func relabel(r *Report, sub *Report, rule string) {
	for _, o := range sub.Obls {
		o.Rule = rule
		r.add(o)
	}
	r.Errors = append(r.Errors, sub.Errors...)
}

func runC04(c *Config, r *Report) {
	ic, err := loadInterp(c, true)
	if err != nil {
		r.Errorf("%v", err)
		return
	}
	s := newReport("C01")
	c01R6(ic, s)
	relabel(r, s, "R04.1")
	s = newReport("C01")
	c01R7(ic, s)
	relabel(r, s, "R04.2")
	freshFrameSlots(ic, r, "R04.3")
	s = newReport("C08")
	c08R1(ic, s)
	relabel(r, s, "R04.4")
	c04R5(ic, r)
	closureFrameCloned(ic, r, "R04.6")
	cloneCopiesData(ic, r, "R04.6")
	c01R8(ic, r, "R04.7", nil)
	c04R8(ic, r)
}

// c04R5: the range shadow copy.
func c04R5(ic *IC, r *Report) {
	rg := ic.fn(r, "_range")
	cp := ic.fn(r, "genValueRangeArray")
	if rg == nil || cp == nil {
		return
	}
	info := ic.Info
	// (a) in _range: each `if isString(...) {...} else {...}` assigns the operand generator in
	// its else arm from genValueRangeArray
	n := 0
	ast.Inspect(rg.Decl.Body, func(nd ast.Node) bool {
		ifs, ok := nd.(*ast.IfStmt)
		if !ok || ifs.Else == nil {
			return true
		}
		c, ok := unparen(ifs.Cond).(*ast.CallExpr)
		if !ok || !isCallTo(info, c, "interp.isString") {
			return true
		}
		n++
		var gens []string
		ast.Inspect(ifs.Else, func(m ast.Node) bool {
			as, ok := m.(*ast.AssignStmt)
			if !ok || len(as.Lhs) != 1 || len(as.Rhs) != 1 {
				return true
			}
			call, ok := unparen(as.Rhs[0]).(*ast.CallExpr)
			if !ok {
				return true
			}
			if f, ok := calleeOf(info, call).(*types.Func); ok && f.Pkg() == ic.Pk.Types && strings.HasPrefix(f.Name(), "genValue") {
				gens = append(gens, f.Name())
			}
			return true
		})
		okGen := len(gens) == 1 && gens[0] == "genValueRangeArray"
		r.Check(okGen, "R04.5", fmt.Sprintf("_range/operand#%d/copying-generator", n), ic.pos(ifs.Pos()), "arrays, slices and pointers to arrays are ranged over through the copying generator",
			fmt.Sprintf("the non-string arm of the range generator evaluates its operand through %v instead of genValueRangeArray: the loop iterates over the live array, so `for i, v := range arr { arr[i+1] = 0 }` sees the assignments made by its own body (compiled Go ranges over a copy)", gens))
		return true
	})
	if n < 2 {
		r.Errorf("R04.5: %d operand selections found in the range generator (key-value and key-only forms expected)", n)
	}
	// (b) the default case of genValueRangeArray detaches the value
	var defClause *ast.CaseClause
	ast.Inspect(cp.Decl.Body, func(nd ast.Node) bool {
		if cc, ok := nd.(*ast.CaseClause); ok && cc.List == nil {
			defClause = cc
		}
		return true
	})
	if defClause == nil {
		r.Errorf("R04.5: genValueRangeArray has no default case")
		return
	}
	detaches := false
	for _, st := range defClause.Body {
		ast.Inspect(st, func(m ast.Node) bool {
			rs, ok := m.(*ast.ReturnStmt)
			if !ok || len(rs.Results) != 1 {
				return true
			}
			if fl, ok := unparen(rs.Results[0]).(*ast.FuncLit); ok {
				ast.Inspect(fl.Body, func(k ast.Node) bool {
					if c, ok := k.(*ast.CallExpr); ok && isCallTo(info, c, "reflect.ValueOf") && len(c.Args) == 1 {
						if len(callsIn(info, c.Args[0], true, "reflect.Value.Interface")) > 0 {
							detaches = true
						}
					}
					return true
				})
			}
			return true
		})
	}
	r.Check(detaches, "R04.5", "genValueRangeArray/default/detached-copy", ic.pos(defClause.Pos()), "the ranged-over value is rebuilt from Interface(): a copy for arrays",
		"the default case of genValueRangeArray no longer returns reflect.ValueOf(value(f).Interface()): the range statement iterates over the live array instead of a copy, so modifications made by the loop body are seen by later iterations")
}

// c04R8: a frame slot is never rebound to the plain result of a value generator
// (slot = v(f)): the two variables would share storage, so a later update of one is seen
// through the other (arrays and structs must be copied with Set). Views derived through
// reflect accessors (Elem, Index, Field, Addr, ...) are how addressable expressions work and
// are accepted; the one frozen exception is the direct result slots of an interpreted call.
// c04HiddenSlots: slots that are not program variables, keyed "<generator>: <value generator>".
var c04HiddenSlots = map[string]string{
	"_range: value":   "the hidden shadow slot of a range statement (index2) receives the operand evaluated once through the copying generator (decided by R04.5)",
	"rangeInt: value": "the hidden slot of `for i := range n` receives the integer bound evaluated once",
}

func c04R8(ic *IC, r *Report) {
	info := ic.Info
	dataFld := ic.field("frame", "data")
	isGenType := func(t types.Type) bool {
		if t == nil {
			return false
		}
		sig, ok := t.Underlying().(*types.Signature)
		return ok && sig.Params().Len() == 1 && isNamedPtr(sig.Params().At(0).Type(), "frame") && sig.Results().Len() == 1 && types.TypeString(sig.Results().At(0).Type(), nil) == "reflect.Value"
	}
	nStores, nClosures := 0, 0
	perFunc := map[string][]string{}
	for _, name := range sortedKeys(ic.F) {
		fi := ic.F[name]
		if fi.Decl.Body == nil {
			continue
		}
		for _, fl := range (&c02ctx{ic: ic}).closuresOf(fi) {
			nClosures++
			// local aliases of a data vector
			alias := map[types.Object]bool{}
			ast.Inspect(fl.Body, func(m ast.Node) bool {
				if as, ok := m.(*ast.AssignStmt); ok && len(as.Lhs) == len(as.Rhs) {
					for i, rhs := range as.Rhs {
						if selFieldNode(info, unparen(rhs)) == dataFld && dataFld != nil {
							if id, ok := as.Lhs[i].(*ast.Ident); ok {
								alias[info.ObjectOf(id)] = true
							}
						}
					}
				}
				return true
			})
			ast.Inspect(fl.Body, func(m ast.Node) bool {
				as, ok := m.(*ast.AssignStmt)
				if !ok || len(as.Lhs) != len(as.Rhs) {
					return true
				}
				for i, l := range as.Lhs {
					ix, ok := unparen(l).(*ast.IndexExpr)
					if !ok {
						continue
					}
					isSlot := selField(info, ix.X) == dataFld && dataFld != nil
					if id, ok := unparen(ix.X).(*ast.Ident); ok && alias[info.ObjectOf(id)] {
						isSlot = true
					}
					if !isSlot {
						continue
					}
					nStores++
					call, ok := unparen(as.Rhs[i]).(*ast.CallExpr)
					if !ok || len(call.Args) != 1 {
						continue
					}
					if !isGenType(info.TypeOf(call.Fun)) {
						continue
					}
					// a plain generator result: the generator is a captured variable (or an element
					// of a captured slice); a generator built in place, genX(..)(f), yields a new
					// value (function values) and is not a variable's storage
					vid, isIdent := unparen(call.Fun).(*ast.Ident)
					if _, isIndex := unparen(call.Fun).(*ast.IndexExpr); !isIdent && !isIndex {
						continue
					}
					if isIdent {
						if src := rangeSourceOf(ic, fl.Body, info.ObjectOf(vid)); src != "" {
							if _, ok := freshSlotExceptions[name+": "+src]; ok {
								continue
							}
						}
						if _, ok := c04HiddenSlots[name+": "+vid.Name]; ok {
							continue
						}
					}
					perFunc[name] = append(perFunc[name], types.ExprString(l)+" = "+types.ExprString(as.Rhs[i])+" at "+ic.pos(as.Pos()))
				}
				return true
			})
		}
	}
	for _, name := range sortedKeys(perFunc) {
		r.Fail("R04.8", name+"/slot-rebound-to-generator-result", "", "a frame slot is rebound to the plain result of a value generator in "+name+" ("+strings.Join(perFunc[name], "; ")+"): the destination variable now shares storage with the source, so assigning an array or struct no longer makes an independent copy")
	}
	if nStores < 40 {
		r.Errorf("R04.8: only %d slot stores found in %d run-time closures", nStores, nClosures)
		return
	}
	if len(perFunc) == 0 {
		r.Pass("R04.8", "slots/never-rebound-to-generator-results", "", fmt.Sprintf("%d slot stores in %d run-time closures; none binds a slot to a plain generator result (one frozen exception: call rvalues)", nStores, nClosures))
	}
}
