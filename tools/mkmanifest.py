#!/usr/bin/env python3
"""Regenerates /verif/MANIFEST.json from the table below (single source of truth)."""
import json, os
V = os.path.dirname(os.path.dirname(os.path.abspath(__file__)))

# id -> (category, level text, level note, technique, design ref)
CLAIMED = {
 "C17": ("other",
  "Static agreement of yaegi's file-selection code with the go/build reference sources: OS/arch table key sets, the tag conditions of matchTag, //go:build support, gating of read/parse by the verdict on every go/cfg path, orientation of the release comparison. Necessary structural conditions of the property; the boolean evaluation of arbitrary constraint lines is not decided.",
  "Trusted: go/types, go/cfg, GOROOT/src/go/build of the installed toolchain as the reference. Known findings K8/K9 (unix and implied-OS tags, //go:build lines) are printed as KNOWN-FINDING.",
  "table agreement with go/build + go/cfg reachability/dominance (custom go/types analyzer)", "DESIGN.md §2 C17"),
}

NOT_APPLICABLE = {
 "C04": "aliasing vs copying of reflect.Values is a run-time fact of how each value was obtained; no structural necessary condition that a test-surviving change could break was found (DESIGN.md §2 C04)",
 "C07": "argument/result transport across the host boundary is per-value reflection over run-time shapes; nothing to pair, order, own or tabulate statically (DESIGN.md §2 C07)",
}

PENDING = "check not built yet in this revision (designed in DESIGN.md §2; it will be claimed once its rules are implemented)"

ids = [json.loads(l)["id"] for l in open(V + "/properties.jsonl")]
checks, na = [], []
for i in ids:
    if i in CLAIMED:
        cat, text, note, tech, ref = CLAIMED[i]
        checks.append({
            "property_id": i,
            "quick_cmd": "./check.sh check %s --tier quick" % i,
            "thorough_cmd": "./check.sh check %s --tier thorough" % i,
            "evidence_file": "/verif/evidence/%s.json" % i,
            "replay_cmd_template": "./check.sh replay {path}",
            "engine": "yverif",
            "level_claimed": {"category": cat, "text": text, "design_ref": ref},
            "level_note": note,
            "technique": "static analysis: " + tech,
        })
    else:
        na.append({"property_id": i, "reason": NOT_APPLICABLE.get(i, PENDING)})

m = {
 "version": 1,
 "setup_cmd": "cd /verif/checker && env -u GOWORK GOFLAGS=-mod=mod GOPROXY=off GOSUMDB=off GOTOOLCHAIN=local CGO_ENABLED=0 go build -o /verif/bin/yverif .",
 "hooks": {
  "guard": "verif",
  "enable": "none: static analysis needs no instrumentation of yaegi; no hook commit exists",
  "baseline_off_cmd": "cd /repo && go test -mod=mod -json -vet=off -count=1 -timeout 25m ./...",
  "source_commits": [],
  "add_only": True,
 },
 "engines": [{
  "name": "yverif", "path": "/verif/checker",
  "serves_properties": sorted(CLAIMED),
  "kind_free_text": "repository-specific static analyzer (go/packages + go/types + go/cfg + go/ssa, x/tools v0.29.0); loads /repo's working tree on every run, one rule per obligation, reports constructs (file:line, function, path)",
 }],
 "checks": checks,
 "not_applicable": na,
 "notes": "All checks are static (no interpreter, test, generator or solver is run). Genuine defects repaired in /repo by 'fix:' commits and recorded in /verif/known_findings.json; remaining genuine defects are listed there as known findings and printed as KNOWN-FINDING lines.",
}
json.dump(m, open(V + "/MANIFEST.json", "w"), indent=1)
print("wrote MANIFEST.json: claimed", sorted(CLAIMED), "n/a", [x["property_id"] for x in na])
