package main

import (
	"fmt"
	"go/ast"
	"go/token"
	"go/types"
	"sort"
	"strings"
)

// R12.6: the operator tables of the type checker agree with the operand classes of the Go
// specification (Arithmetic operators, Logical operators): + on integers, floats, complex
// values and strings; - * / on integers, floats and complex values; % & | ^ &^ on integers;
// && || ! on booleans; unary + - on numbers, ^ on integers; ++ -- on numbers. The accepted
// kinds of a table entry are read from the bodies of the kind predicates it is built from
// (disjunctions only); the predicates themselves must list every kind of their class.

var specOperandClasses = map[string][]string{
	"aAdd": {"int", "uint", "float", "complex", "string"},
	"aSub": {"int", "uint", "float", "complex"}, "aMul": {"int", "uint", "float", "complex"}, "aQuo": {"int", "uint", "float", "complex"},
	"aRem": {"int", "uint"}, "aAnd": {"int", "uint"}, "aOr": {"int", "uint"}, "aXor": {"int", "uint"}, "aAndNot": {"int", "uint"},
	"aLand": {"bool"}, "aLor": {"bool"},
	"aInc": {"int", "uint", "float", "complex"}, "aDec": {"int", "uint", "float", "complex"},
	"aPos": {"int", "uint", "float", "complex"}, "aNeg": {"int", "uint", "float", "complex"},
	"aBitNot": {"int", "uint"}, "aNot": {"bool"},
}

var specTables = map[string][]string{
	"binaryOpPredicates": {"aAdd", "aSub", "aMul", "aQuo", "aRem", "aAnd", "aOr", "aXor", "aAndNot", "aLand", "aLor"},
	"unaryOpPredicates":  {"aInc", "aDec", "aPos", "aNeg", "aBitNot", "aNot"},
}

func c12R6(ic *IC, r *Report) {
	info := ic.Info
	// kind predicates: func(reflect.Type) bool declared in the package
	isKindPred := func(f *types.Func) bool {
		sig, ok := f.Type().(*types.Signature)
		return ok && sig.Recv() == nil && sig.Params().Len() == 1 && sig.Results().Len() == 1 &&
			types.TypeString(sig.Params().At(0).Type(), nil) == "reflect.Type" && types.Identical(sig.Results().At(0).Type(), types.Typ[types.Bool])
	}
	memo := map[*types.Func]map[string]bool{}
	var undecided []string
	var kindsOfExpr func(e ast.Expr, depth int) map[string]bool
	var kindsOfFunc func(f *types.Func, depth int) map[string]bool
	kindsOfFunc = func(f *types.Func, depth int) map[string]bool {
		if m, ok := memo[f]; ok {
			return m
		}
		out := map[string]bool{}
		memo[f] = out
		fi := ic.G.Funcs[f]
		if fi == nil || fi.Decl.Body == nil || depth > 4 {
			return out
		}
		ast.Inspect(fi.Decl.Body, func(n ast.Node) bool {
			switch x := n.(type) {
			case *ast.SelectorExpr:
				if c, ok := info.Uses[x.Sel].(*types.Const); ok && c.Pkg() != nil && c.Pkg().Path() == "reflect" && kindClass[c.Name()] != "" {
					out[c.Name()] = true
				}
			case *ast.CallExpr:
				if g, ok := calleeOf(info, x).(*types.Func); ok && g.Pkg() == ic.Pk.Types && isKindPred(g) && g != f {
					for k := range kindsOfFunc(g, depth+1) {
						out[k] = true
					}
				}
			case *ast.UnaryExpr:
				if x.Op == token.NOT {
					// t != nil guards are written with !=, a negated predicate would invert the set
					if _, isCall := unparen(x.X).(*ast.CallExpr); isCall {
						undecided = append(undecided, f.Name()+" negates a predicate")
					}
				}
			}
			return true
		})
		return out
	}
	kindsOfExpr = func(e ast.Expr, depth int) map[string]bool {
		out := map[string]bool{}
		switch x := unparen(e).(type) {
		case *ast.Ident:
			if f, ok := info.Uses[x].(*types.Func); ok && isKindPred(f) {
				return kindsOfFunc(f, depth)
			}
		case *ast.FuncLit:
			ast.Inspect(x.Body, func(n ast.Node) bool {
				switch y := n.(type) {
				case *ast.CallExpr:
					if g, ok := calleeOf(info, y).(*types.Func); ok && g.Pkg() == ic.Pk.Types && isKindPred(g) {
						for k := range kindsOfFunc(g, depth+1) {
							out[k] = true
						}
					}
				case *ast.BinaryExpr:
					if y.Op == token.LAND {
						undecided = append(undecided, "a table entry combines predicates with &&")
					}
				case *ast.UnaryExpr:
					if y.Op == token.NOT {
						undecided = append(undecided, "a table entry negates a predicate")
					}
				}
				return true
			})
		}
		return out
	}
	classKinds := func(classes []string) map[string]bool {
		out := map[string]bool{}
		for k, c := range kindClass {
			for _, w := range classes {
				if c == w {
					out[k] = true
				}
			}
		}
		return out
	}
	diff := func(have, want map[string]bool) (missing, extra []string) {
		for k := range want {
			if !have[k] {
				missing = append(missing, k)
			}
		}
		for k := range have {
			if !want[k] {
				extra = append(extra, k)
			}
		}
		sort.Strings(missing)
		sort.Strings(extra)
		return
	}
	// (a) the class predicates list exactly the kinds of their class
	for _, pc := range []struct {
		name    string
		classes []string
	}{{"isInt", []string{"int", "uint"}}, {"isUint", []string{"uint"}}, {"isFloat", []string{"float"}}, {"isComplex", []string{"complex"}}, {"isBoolean", []string{"bool"}}, {"isString", []string{"string"}}, {"isNumber", []string{"int", "uint", "float", "complex"}}} {
		fi := ic.F[pc.name]
		if fi == nil || fi.Obj == nil {
			r.Errorf("anchor not resolved: kind predicate %s", pc.name)
			continue
		}
		missing, extra := diff(kindsOfFunc(fi.Obj, 0), classKinds(pc.classes))
		r.Check(len(missing) == 0 && len(extra) == 0, "R12.6", "predicate/"+pc.name, ic.pos(fi.Decl.Pos()), "accepts exactly the kinds of its class",
			fmt.Sprintf("the kind predicate %s lacks %v and wrongly accepts %v: operators are accepted or rejected on the wrong operand types (a missing kind makes valid programs fail to compile, an extra kind lets an invalid operation through to run time)", pc.name, missing, extra))
	}
	// (a') ordered operands: integers, floats and strings (not complex values, not booleans)
	if fi := ic.F["itype.ordered"]; fi != nil && fi.Obj != nil {
		missing, extra := diff(kindsOfFunc(fi.Obj, 0), classKinds([]string{"int", "uint", "float", "string"}))
		r.Check(len(missing) == 0 && len(extra) == 0, "R12.6", "predicate/itype.ordered", ic.pos(fi.Decl.Pos()), "ordered types are the integer, float and string kinds",
			fmt.Sprintf("(*itype).ordered lacks %v and wrongly accepts %v: < <= > >= are accepted on operands the Go specification does not order (complex values, booleans) or rejected on ordered ones", missing, extra))
		// and the ordering operators consult it for both operands
		if cmp := ic.F["typecheck.comparison"]; cmp != nil && cmp.Decl.Body != nil {
			okBoth := false
			ast.Inspect(cmp.Decl.Body, func(n ast.Node) bool {
				cc, ok := n.(*ast.CaseClause)
				if !ok {
					return true
				}
				isOrd := false
				for _, e := range cc.List {
					if id, ok := unparen(e).(*ast.Ident); ok && (id.Name == "aLower" || id.Name == "aGreater") {
						isOrd = true
					}
				}
				if isOrd {
					calls := 0
					for _, st := range cc.Body {
						calls += len(callsIn(info, st, false, "interp.itype.ordered"))
					}
					and := false
					for _, st := range cc.Body {
						ast.Inspect(st, func(m ast.Node) bool {
							if be, ok := m.(*ast.BinaryExpr); ok && be.Op == token.LAND {
								and = true
							}
							return true
						})
					}
					okBoth = calls >= 2 && and
				}
				return true
			})
			r.Check(okBoth, "R12.6", "comparison/ordering-operators-need-ordered-operands", ic.pos(cmp.Decl.Pos()), "the ordering operators require both operands to be ordered",
				"the case of < <= > >= in typecheck.comparison does not require ordered() of both operands: an ordering of complex values or booleans is compiled")
		} else {
			r.Errorf("anchor not resolved: typecheck.comparison")
		}
	} else {
		r.Errorf("anchor not resolved: (*itype).ordered")
	}
	// (b) the operator tables
	nTables := 0
	for _, f := range ic.Pk.Syntax {
		for _, d := range f.Decls {
			gd, ok := d.(*ast.GenDecl)
			if !ok || gd.Tok != token.VAR {
				continue
			}
			for _, sp := range gd.Specs {
				vs := sp.(*ast.ValueSpec)
				for i, nm := range vs.Names {
					want, ok := specTables[nm.Name]
					if !ok || i >= len(vs.Values) {
						continue
					}
					cl, ok := vs.Values[i].(*ast.CompositeLit)
					if !ok {
						continue
					}
					nTables++
					have := map[string]ast.Expr{}
					for _, e := range cl.Elts {
						if kv, ok := e.(*ast.KeyValueExpr); ok {
							if id, ok := unparen(kv.Key).(*ast.Ident); ok {
								have[id.Name] = kv.Value
							}
						}
					}
					for _, a := range want {
						v, ok := have[a]
						if !ok {
							r.Fail("R12.6", nm.Name+"/"+a, ic.pos(cl.Pos()), "the table "+nm.Name+" has no entry for "+a+": the operator is reported as unknown for every operand type")
							continue
						}
						missing, extra := diff(kindsOfExpr(v, 0), classKinds(specOperandClasses[a]))
						r.Check(len(missing) == 0 && len(extra) == 0, "R12.6", nm.Name+"/"+a, ic.pos(v.Pos()), "operand kinds = "+strings.Join(specOperandClasses[a], "+"),
							fmt.Sprintf("the entry %s of %s accepts operand kinds that differ from the Go specification (%s): lacks %v, wrongly accepts %v; an operation such as 1.5 %% 2 or \"a\" - \"b\" is then compiled and fails (or misbehaves) at run time", a, nm.Name, strings.Join(specOperandClasses[a], "+"), missing, extra))
					}
					for a := range have {
						if _, ok := specOperandClasses[a]; !ok {
							r.Fail("R12.6", nm.Name+"/"+a, ic.pos(cl.Pos()), "the table "+nm.Name+" has an entry for "+a+", which is not an operator of that class")
						}
					}
				}
			}
		}
	}
	for _, u := range dedupStr(undecided) {
		r.Fail("R12.6", "undecided", "", "undecided: "+u+" (only disjunctions of kind predicates are understood)")
	}
	if nTables < 2 {
		r.Errorf("R12.6: %d operator predicate tables found (binaryOpPredicates and unaryOpPredicates expected)", nTables)
	}
}
