package main

// Mutants added in the fifth round (repairs D56-..., rules added after the round-5 seeds).
func init() {
	addMutants(
		// D56 reverted, one operator at a time
		mutant{Name: "comparison-folder-dropped-from-the-table", Prop: "C03", File: "interp/cfg.go", Old: "\taLower:        lowerConst,\n", New: "", Rule: "R03.12", Key: "binary/<"},
		mutant{Name: "comparison-folder-with-the-wrong-token", Prop: "C03", File: "interp/cfg.go", Old: "func lowerConst(n *node)        { compareConst(n, token.LSS) }", New: "func lowerConst(n *node)        { compareConst(n, token.LEQ) }", Rule: "R03.1", Key: "aLower/lowerConst"},
		mutant{Name: "logical-or-not-folded", Prop: "C03", File: "interp/cfg.go", Old: "\t\t\tsetFNext(n.child[0], n.child[1].start)\n\t\t\tn.child[1].tnext = n\n\t\t\tn.typ = n.child[0].typ\n\t\t\tn.typ.TypeOf() // Force compute of reflection type.\n\t\t\tif logicalConst(n); n.rval.IsValid() {\n\t\t\t\t// The operands are constants, and so is the result.\n\t\t\t\tn.gen = nop\n\t\t\t\tn.findex = notInFrame\n\t\t\t} else {\n\t\t\t\tn.findex = sc.add(n.typ)\n\t\t\t}\n", New: "\t\t\tsetFNext(n.child[0], n.child[1].start)\n\t\t\tn.child[1].tnext = n\n\t\t\tn.typ = n.child[0].typ\n\t\t\tn.findex = sc.add(n.typ)\n", Rule: "R03.12", Key: "binary/||"},
		// D57 reverted for binary expressions
		mutant{Name: "typed-constant-arithmetic-left-to-the-folders", Prop: "C03", File: "interp/cfg.go", Old: "\t\t\t\tn.typ.TypeOf() // Force compute of reflection type.\n\t\t\t\tif err = check.constExpr(n); err != nil {\n\t\t\t\t\tbreak\n\t\t\t\t}\n\t\t\t\tconstOp[n.action](n) // Compute a constant result now rather than during exec.\n", New: "\t\t\t\tn.typ.TypeOf() // Force compute of reflection type.\n\t\t\t\tconstOp[n.action](n) // Compute a constant result now rather than during exec.\n", Rule: "R03.13", Key: "Interpreter.cfg/binaryExpr"},
		mutant{Name: "exact-check-error-not-leaving", Prop: "C03", File: "interp/cfg.go", Old: "\t\t\t\tn.typ.TypeOf() // init reflect type\n\t\t\t\tif err = check.constExpr(n); err != nil {\n\t\t\t\t\tbreak\n\t\t\t\t}\n", New: "\t\t\t\tn.typ.TypeOf() // init reflect type\n\t\t\t\tif err = check.constExpr(n); err != nil {\n\t\t\t\t\terr = nil\n\t\t\t\t}\n", Rule: "R03.13", Key: "Interpreter.cfg/unaryExpr"},
		mutant{Name: "benign-exact-check-in-two-statements", Prop: "C03", File: "interp/cfg.go", Old: "\t\t\t\tn.typ.TypeOf() // init reflect type\n\t\t\t\tif err = check.constExpr(n); err != nil {\n\t\t\t\t\tbreak\n\t\t\t\t}\n", New: "\t\t\t\tn.typ.TypeOf() // init reflect type\n\t\t\t\terr = check.constExpr(n)\n\t\t\t\tif err != nil {\n\t\t\t\t\tbreak\n\t\t\t\t}\n", Benign: true},
		// D58 reverted
		mutant{Name: "constant-without-value-accepted", Prop: "C03", File: "interp/cfg.go", Old: "\t\t\t\tif n.anc.kind == constDecl && !src.rval.IsValid() {\n\t\t\t\t\terr = src.cfgErrorf(\"initializer of constant %s is not a constant\", dest.ident)\n\t\t\t\t\tbreak\n\t\t\t\t}\n", New: "", Rule: "R03.12", Key: "cfg/constant-symbol-has-a-value"},
	)
}

func init() {
	addMutants(
		// D59 reverted
		mutant{Name: "main-started-by-every-later-eval", Prop: "C11", File: "interp/program.go", Old: "pkgName == mainID && m != nil && m.node.hasAnc(root) {", New: "pkgName == mainID && m != nil {", Rule: "R11.12", Key: "Interpreter.CompileAST/main-started-by-the-unit-declaring-it"},
		mutant{Name: "benign-main-declared-here-through-a-helper-comparison", Prop: "C11", File: "interp/program.go", Old: "pkgName == mainID && m != nil && m.node.hasAnc(root) {", New: "pkgName == mainID && m != nil && (m.node.anc == root || m.node.hasAnc(root)) {", Benign: true},
		// D60-D62 reverted
		mutant{Name: "blank-identifier-looked-up-by-name", Prop: "C15", File: "interp/cfg.go", Old: "\t\t\tif n.ident == \"_\" {\n\t\t\t\t// All blank identifiers share the same symbol.\n\t\t\t\treturn false\n\t\t\t}\n", New: "", Rule: "R15.13", Key: "getVarDependencies/skip:blank-identifier"},
		mutant{Name: "struct-literal-keys-looked-up-by-name", Prop: "C15", File: "interp/cfg.go", Old: "\t\t\tif n.anc.kind == keyValueExpr && n.anc.child[0] == n && isStruct(n.anc.typ) {\n\t\t\t\t// A field name in a struct literal.\n\t\t\t\treturn false\n\t\t\t}\n", New: "", Rule: "R15.13", Key: "getVarDependencies/skip:struct-literal-field-name"},
		mutant{Name: "map-literal-keys-not-dependencies", Prop: "C15", File: "interp/cfg.go", Old: "\t\t\tif n.anc.kind == keyValueExpr && n.anc.child[0] == n && isStruct(n.anc.typ) {\n", New: "\t\t\tif n.anc.kind == keyValueExpr && n.anc.child[0] == n {\n", Rule: "R15.5", Key: "getVarDependencies/skip:keyValueExpr"},
		mutant{Name: "function-literal-walked-by-name", Prop: "C15", File: "interp/cfg.go", Old: "\t\t\tif n.kind == funcLit && !inFunc {\n\t\t\t\t// The identifiers of a function literal have been resolved by cfg, as in a function body.\n\t\t\t\twalk(n, true)\n\t\t\t\treturn false\n\t\t\t}\n", New: "", Rule: "R15.13", Key: "getVarDependencies/function-literal-uses-resolved-symbols"},
		// round-5 seeds turned into mutants
		mutant{Name: "method-named-init-started", Prop: "C15", File: "interp/cfg.go", Old: "if n.child[1].ident == \"init\" && len(n.child[0].child) == 0 {", New: "if n.child[1].ident == \"init\" {", Rule: "R15.2", Key: "cfg/start-list-store#1/no-receiver"},
		mutant{Name: "benign-init-guard-with-isMethod", Prop: "C15", File: "interp/cfg.go", Old: "if n.child[1].ident == \"init\" && len(n.child[0].child) == 0 {", New: "if n.child[1].ident == \"init\" && !isMethod(n) {", Benign: true},
		mutant{Name: "root-of-relative-imports-by-TrimPrefix", Prop: "C16", File: "interp/src.go", Old: "\t\tsubRPath := effectivePkg(rPath, importPath)\n", New: "\t\tsubRPath := effectivePkg(rPath, importPath)\n\t\tif isPathRelative(importPath) {\n\t\t\tsubRPath = strings.TrimPrefix(dir, filepath.Dir(interp.name)+string(filepath.Separator))\n\t\t}\n", Rule: "R16.6", Key: "importSrc/root-handed-to-the-imports#1"},
		mutant{Name: "benign-root-of-relative-imports-by-filepath-Rel", Prop: "C16", File: "interp/src.go", Old: "\t\tsubRPath := effectivePkg(rPath, importPath)\n", New: "\t\tsubRPath := effectivePkg(rPath, importPath)\n\t\tif isPathRelative(importPath) {\n\t\t\tif rel, rerr := filepath.Rel(filepath.Dir(interp.name), dir); rerr == nil {\n\t\t\t\tsubRPath = rel\n\t\t\t}\n\t\t}\n", Benign: true},
		mutant{Name: "only-the-first-group-of-build-lines", Prop: "C17", File: "interp/build.go", Old: "\t\t\tif !buildLineOk(ctx, line) {\n\t\t\t\treturn false, nil\n\t\t\t}\n\t\t}\n", New: "\t\t\tif !buildLineOk(ctx, line) {\n\t\t\t\treturn false, nil\n\t\t\t}\n\t\t}\n\t\tif strings.Contains(g.Text(), \"+build \") {\n\t\t\tbreak\n\t\t}\n", Rule: "R17.6", Key: "Interpreter.buildOk/group-loop#2"},
		mutant{Name: "loop-variable-copy-skipped-when-not-escaping", Prop: "C01", File: "interp/run.go", Old: "func loopVarKey(n *node) {\n\tixn := n.anc.anc.child[0]\n\tnext := getExec(n.tnext)\n", New: "func loopVarKey(n *node) {\n\tixn := n.anc.anc.child[0]\n\tnext := getExec(n.tnext)\n\tif len(n.anc.child) < 3 {\n\t\tn.exec = func(f *frame) bltn {\n\t\t\tf.data[n.findex].Set(f.data[ixn.findex])\n\t\t\treturn next\n\t\t}\n\t\treturn\n\t}\n", Rule: "R01.3", Key: "loopVarKey/fresh-copy"},
		mutant{Name: "define-allocates-only-in-loops", Prop: "C01", File: "interp/run.go", Old: "\t\tcase n.kind == defineStmt:\n", New: "\t\tcase n.kind == defineStmt && isInLoop(n):\n", Also: [][3]string{{"interp/run.go", "func not(n *node) {", "func isInLoop(n *node) bool {\n\tfor a := n.anc; a != nil; a = a.anc {\n\t\tif a.kind == forStmt7 || a.kind == rangeStmt {\n\t\t\treturn true\n\t\t}\n\t}\n\treturn false\n}\n\nfunc not(n *node) {"}}, Rule: "R01.21", Key: "assign/new-variable#1"},
		mutant{Name: "continue-branches-to-the-post-statement", Prop: "C01", File: "interp/cfg.go", Old: "\t\t\t\tn.tnext = sc.loopRestart\n", New: "\t\t\t\tn.tnext = sc.loopRestart.start\n", Rule: "R01.22", Key: "cfg/continue#1"},
	)
}

func init() {
	addMutants(
		// D63-D66 reverted
		mutant{Name: "empty-build-tag-indexed", Prop: "C17", File: "interp/build.go", Old: "\tnot := strings.HasPrefix(s, \"!\")\n", New: "\tnot := s[0] == '!'\n", Rule: "R17.10", Key: "buildTagOk/s[0]"},
		mutant{Name: "build-line-prefix-sliced-without-length-test", Prop: "C17", File: "interp/build.go", Old: "\tif len(line) < 7 || line[:7] != \"+build \" {\n", New: "\tif line[:7] != \"+build \" {\n", Rule: "R17.10", Key: "buildLineOk/line[:7]"},
		mutant{Name: "benign-build-line-prefix-tested-with-HasPrefix", Prop: "C17", File: "interp/build.go", Old: "\tif len(line) < 7 || line[:7] != \"+build \" {\n", New: "\tif !strings.HasPrefix(line, \"+build \") {\n", Benign: true},
		mutant{Name: "excluded-source-handed-to-the-ast-builder", Prop: "C17", File: "interp/program.go", Old: "\tif n == nil {\n\t\treturn nil, fmt.Errorf(\"%s: build constraints exclude the source\", interp.name)\n\t}\n", New: "\t_ = fmt.Sprint\n", Rule: "R17.11", Key: "Interpreter.compileSrc/excluded-source-not-handed-on"},
		mutant{Name: "directory-entries-read-as-files", Prop: "C17", File: "interp/src.go", Old: "\t\tif file.IsDir() || skipFile(&interp.context, name, skipTest) {\n", New: "\t\tif skipFile(&interp.context, name, skipTest) {\n", Rule: "R17.12", Key: "importSrc/directories-are-not-source-files"},
		mutant{Name: "directory-test-conjoined", Prop: "C17", File: "interp/src.go", Old: "\t\tif file.IsDir() || skipFile(&interp.context, name, skipTest) {\n", New: "\t\tif file.IsDir() && skipFile(&interp.context, name, skipTest) {\n", Rule: "R17.12", Key: "importSrc/directories-are-not-source-files"},
		mutant{Name: "build-tags-of-the-options-aliased", Prop: "C17", File: "interp/interp.go", Old: "\t\ti.opt.context.BuildTags = append([]string{}, options.BuildTags...)", New: "\t\ti.opt.context.BuildTags = options.BuildTags", Rule: "R17.13", Key: "New/build-tags-copied"},
		mutant{Name: "build-tags-of-the-options-extended-in-place", Prop: "C17", File: "interp/interp.go", Old: "\t\ti.opt.context.BuildTags = append([]string{}, options.BuildTags...)", New: "\t\ti.opt.context.BuildTags = append(options.BuildTags, \"yaegi\")", Rule: "R17.13", Key: "New/build-tags-copied"},
		// round-5 seeds of the other properties turned into mutants
		mutant{Name: "float-to-unsigned-through-int64-in-a-helper", Prop: "C02", File: "interp/value.go", Old: "func vConstantValue(v reflect.Value) (c constant.Value) {", New: "func floatToUint(v reflect.Value) uint64 { return uint64(int64(v.Float())) }\n\nfunc vConstantValue(v reflect.Value) (c constant.Value) {", Rule: "R02.11", Key: "floatToUint/float-narrowed-through-the-other-integer-class#1"},
		mutant{Name: "integer-constant-wrapped-when-materialised", Prop: "C03", File: "interp/run.go", Old: "\t\ti, x := constant.Int64Val(c)\n\t\tif !x {\n\t\t\tpanic(n.cfgErrorf(\"constant %s overflows int64\", c.ExactString()))\n\t\t}\n", New: "\t\ti, _ := constant.Int64Val(c)\n", Rule: "R03.14", Key: "convertConstantValue/integer-constant-materialised-exactly"},
		mutant{Name: "float32-range-tested-on-float64", Prop: "C03", File: "interp/typecheck.go", Old: "\t\tcase reflect.Float32:\n\t\t\tf, _ := constant.Float32Val(x)\n\t\t\treturn !math.IsInf(float64(f), 0)\n\t\tcase reflect.Float64:\n\t\t\tf, _ := constant.Float64Val(x)\n\t\t\treturn !math.IsInf(f, 0)\n\t\tdefault:\n\t\t\treturn false\n\t\t}\n\tcase isComplex(t):", New: "\t\tcase reflect.Float32, reflect.Float64:\n\t\t\tf, _ := constant.Float64Val(x)\n\t\t\treturn !math.IsInf(f, 0)\n\t\tdefault:\n\t\t\treturn false\n\t\t}\n\tcase isComplex(t):", Rule: "R03.8", Key: "representableConst/Float64Val#1"},
		mutant{Name: "variadic-operand-copied-under-the-ellipsis", Prop: "C04", File: "interp/run.go", Old: "\t\t\t\t\t\tvararg.Set(v(f))\n", New: "\t\t\t\t\t\tvararg.Set(reflect.AppendSlice(vararg, v(f)))\n", Rule: "R04.14", Key: "call/variadic-vector-copied-under-the-ellipsis#1"},
		mutant{Name: "deferred-call-made-before-the-recover-is-installed", Prop: "C06", File: "interp/run.go", Old: "func (f *frame) callDeferred(val []reflect.Value) {\n", New: "func (f *frame) callDeferred(val []reflect.Value) {\n\tif f.recovered == nil {\n\t\tval[0].Call(val[1:])\n\t\treturn\n\t}\n", Rule: "R06.7", Key: "runCfg/deferred-calls-isolated"},
		mutant{Name: "zero-panic-value-replaced", Prop: "C06", File: "interp/run.go", Old: "\t\tif !v.IsValid() || !v.CanInterface() {\n\t\t\tpanic(v)\n\t\t}\n", New: "\t\tif !v.IsValid() || v.IsZero() {\n\t\t\tpanic(errors.New(\"panic called with nil argument\"))\n\t\t}\n\t\tif !v.CanInterface() {\n\t\t\tpanic(v)\n\t\t}\n", Rule: "R06.13", Key: "substitute-only-for-the-nil-interface"},
		mutant{Name: "pointer-kinds-interconvertible", Prop: "C12", File: "interp/type.go", Old: "\tif (tt.Kind() == reflect.Ptr || tt.Kind() == reflect.Uintptr) && ot.Kind() == reflect.UnsafePointer {\n", New: "\tif (tt.Kind() == reflect.Ptr || tt.Kind() == reflect.Uintptr) && (ot.Kind() == reflect.UnsafePointer || ot.Kind() == reflect.Ptr) {\n", Rule: "R12.13", Key: "itype.convertibleTo/accepts:Ptr->Ptr"},
	)
}

func init() {
	addMutants(
		// D67-D73 reverted (C01 wiring repairs of the fifth round)
		mutant{Name: "only-the-first-case-expression-wired", Prop: "C01", File: "interp/cfg.go", Old: "\t\t\t\t\tc.start = body.start\n\t\t\t\t\tfor j, e := range c.child[:len(c.child)-1] {\n\t\t\t\t\t\tif j == 0 {\n\t\t\t\t\t\t\tc.start = e.start\n\t\t\t\t\t\t} else {\n\t\t\t\t\t\t\tc.child[j-1].tnext = e.start\n\t\t\t\t\t\t}\n\t\t\t\t\t\te.tnext = c\n\t\t\t\t\t}\n", New: "\t\t\t\t\tc.child[0].tnext = c\n\t\t\t\t\tc.start = c.child[0].start\n", Rule: "R01.23", Key: "cfg/case:switchStmt/every-case-expression-wired"},
		mutant{Name: "empty-switch-skips-its-header", Prop: "C01", File: "interp/cfg.go", Old: "\t\t\t\t// Switch is empty: its init statement and tag are still evaluated.\n\t\t\t\tn.start = n.child[0].start\n\t\t\t\tif n.kind == typeSwitch {\n\t\t\t\t\tn.child[0].tnext = n\n\t\t\t\t} else {\n\t\t\t\t\twireSwitchHeader(n, n)\n\t\t\t\t}\n\t\t\t\tbreak\n\t\t\t}\n\t\t\tif n.kind == switchStmt {\n", New: "\t\t\t\tbreak\n\t\t\t}\n\t\t\tif n.kind == switchStmt {\n", Rule: "R01.24", Key: "cfg/case:switchStmt/empty-switch-evaluates-its-header"},
		mutant{Name: "dereferenced-condition-stored-on-the-true-branch-only", Prop: "C01", File: "interp/run.go", Old: "\t\t\tr := value(f).Elem()\n\t\t\tgetFrame(f, l).data[i] = r\n\t\t\tif r.Bool() {\n\t\t\t\treturn tnext\n\t\t\t}\n", New: "\t\t\tr := value(f).Elem()\n\t\t\tif r.Bool() {\n\t\t\t\tgetFrame(f, l).data[i] = r\n\t\t\t\treturn tnext\n\t\t\t}\n", Rule: "R01.19", Key: "deref/branching-closure#1/stores-its-value-on-every-path"},
		mutant{Name: "range-over-pointer-without-hidden-slot", Prop: "C01", File: "interp/cfg.go", Old: "\t\t\t\t\tcase ptrT:\n\t\t\t\t\t\tsc.add(sc.getType(\"int\")) // Add a dummy type to store array shallow copy for range\n", New: "\t\t\t\t\tcase ptrT:\n", Rule: "R01.25", Key: "cfg/range/case:ptrT/hidden-slot-allocated"},
		mutant{Name: "loop-variable-redeclaration-dropped", Prop: "C01", File: "interp/cfg.go", Old: "\t\t\t\t\t\t\tif fi != nil && dest.ident == fi.ident {\n\t\t\t\t\t\t\t\t// A new variable, which shadows the per-iteration copy of the loop variable.\n", New: "\t\t\t\t\t\t\tif fi != nil && dest.ident == fi.ident {\n\t\t\t\t\t\t\t\tif src.kind == identExpr && src.ident == dest.ident {\n\t\t\t\t\t\t\t\t\tn.gen = nop\n\t\t\t\t\t\t\t\t\tbreak\n\t\t\t\t\t\t\t\t}\n\t\t\t\t\t\t\t\t// A new variable, which shadows the per-iteration copy of the loop variable.\n", Rule: "R01.11", Key: "redeclaration-creates-a-variable"},
		mutant{Name: "range-value-variable-not-recognised", Prop: "C01", File: "interp/cfg.go", Old: "\t\t\t\t\t\t\t\trn := n.anc.anc\n\t\t\t\t\t\t\t\tfor _, v := range rn.child[:len(rn.child)-2] {\n\t\t\t\t\t\t\t\t\tif v.ident == dest.ident {\n\t\t\t\t\t\t\t\t\t\tfi = v\n\t\t\t\t\t\t\t\t\t}\n\t\t\t\t\t\t\t\t}\n", New: "\t\t\t\t\t\t\t\tfi = n.anc.anc.child[0]\n", Rule: "R01.11", Key: "every-variable-of-the-clause"},
		mutant{Name: "composite-literal-built-in-place-for-definitions", Prop: "C01", File: "interp/cfg.go", Old: "\t\t\t\tcase src.action == aCompositeLit && (n.kind != defineStmt || isInterface(dest.typ)):\n", New: "\t\t\t\tcase src.action == aCompositeLit:\n", Rule: "R01.26", Key: "cfg/assign-shortcut:src.action == aCompositeLit/not-for-definitions"},
	)
}

func init() {
	addMutants(
		// D74 reverted
		mutant{Name: "callee-results-alias-the-destination", Prop: "C04", File: "interp/run.go", Old: "\t\tfor i := range rvalues {\n\t\t\tnf.data[i] = reflect.New(def.types[i]).Elem()\n\t\t}\n", New: "\t\tfor i, v := range rvalues {\n\t\t\tif v != nil {\n\t\t\t\tnf.data[i] = v(f)\n\t\t\t} else {\n\t\t\t\tnf.data[i] = reflect.New(def.types[i]).Elem()\n\t\t\t}\n\t\t}\n", Rule: "R04.3", Key: "call"},
	)
}

func init() {
	addMutants(
		// D75 reverted
		mutant{Name: "compile-time-panic-escapes-eval", Prop: "C06", File: "interp/program.go", Old: "\tdefer func() {\n\t\tif r := recover(); r != nil {\n\t\t\tvar pc [64]uintptr // 64 frames should be enough.\n\t\t\tn := runtime.Callers(1, pc[:])\n\t\t\tprog, err = nil, Panic{Value: r, Callers: pc[:n], Stack: debug.Stack()}\n\t\t}\n\t}()\n\n\t// Convert AST.\n", New: "\t// Convert AST.\n", Rule: "R06.15", Key: "entry/Eval->cfg"},
		mutant{Name: "compile-time-panic-rethrown", Prop: "C12", File: "interp/program.go", Old: "\t\t\tprog, err = nil, Panic{Value: r, Callers: pc[:n], Stack: debug.Stack()}\n\t\t}\n\t}()\n\n\t// Convert AST.\n", New: "\t\t\tprog, err = nil, Panic{Value: r, Callers: pc[:n], Stack: debug.Stack()}\n\t\t\tpanic(r)\n\t\t}\n\t}()\n\n\t// Convert AST.\n", Rule: "R12.14", Key: "entry/Eval->cfg"},
	)
}

func init() {
	addMutants(
		// D76-D79 reverted
		mutant{Name: "failed-assertion-keeps-the-previous-result", Prop: "C05", File: "interp/run.go", Old: "\tif !ok && result != nil {\n\t\tv := result(f)\n\t\tv.Set(reflect.Zero(v.Type()))\n\t}\n", New: "\t_ = result\n", Rule: "R05.10", Key: "typeAssert/closure#1/failed-assertion-zeroes-the-result"},
		mutant{Name: "empty-loop-body-ends-the-function", Prop: "C01", File: "interp/cfg.go", Old: "\t\t\t\tif l.kind == identExpr && l.tnext == nil && n.anc != nil && (hasForInit(n.anc) || n.anc.kind == rangeStmt) {\n\t\t\t\t\t// The body of the loop is empty: the nodes of its per-iteration loop\n\t\t\t\t\t// variables, which are executed, lead to the body itself.\n\t\t\t\t\tl.tnext = n\n\t\t\t\t}\n", New: "", Rule: "R01.27", Key: "cfg/empty-loop-body/last-placeholder-has-a-successor"},
		mutant{Name: "logical-operators-not-type-checked", Prop: "C12", File: "interp/cfg.go", Old: "\t\t\tif err = check.logicalExpr(n); err != nil {\n\t\t\t\tbreak\n\t\t\t}\n\t\t\tn.start = n.child[0].start\n\t\t\tn.child[0].tnext = n.child[1].start\n", New: "\t\t\tn.start = n.child[0].start\n\t\t\tn.child[0].tnext = n.child[1].start\n", Rule: "R12.15", Key: "cfg/case:landExpr/operands-type-checked"},
		mutant{Name: "send-direction-not-checked", Prop: "C12", File: "interp/cfg.go", Old: "\t\t\tif isRecvChan(n.child[0].typ) {\n\t\t\t\terr = n.cfgErrorf(\"invalid operation: cannot send to receive-only channel %s\", n.child[0].typ.id())\n\t\t\t\tbreak\n\t\t\t}\n", New: "", Rule: "R12.16", Key: "cfg/case:sendStmt/channel-direction-checked"},
	)
}

func init() {
	addMutants(
		// D80, D81 reverted
		mutant{Name: "method-value-keeps-the-receiver-expression", Prop: "C05", File: "interp/run.go", Old: "\t\tif recv != nil {\n\t\t\tr := recv(f)\n\t\t\tif !ptrRecv {\n\t\t\t\tfor r.Kind() == reflect.Ptr {\n\t\t\t\t\tr = r.Elem()\n\t\t\t\t}\n\t\t\t}\n\t\t\tif !ptrRecv || r.Kind() == reflect.Ptr {\n\t\t\t\tc := reflect.New(r.Type()).Elem()\n\t\t\t\tc.Set(r)\n\t\t\t\tr = c\n\t\t\t}\n\t\t\tnod.recv = &receiver{val: r}\n\t\t}\n", New: "\t\t_, _ = recv, ptrRecv\n", Rule: "R05.11", Key: "getMethod/closure#1/receiver-bound-at-evaluation"},
		mutant{Name: "deferred-function-value-read-when-it-runs", Prop: "C06", File: "interp/run.go", Old: "\t\t\t} else {\n\t\t\t\tval[0] = fixArg(value(f))\n\t\t\t}\n", New: "\t\t\t} else {\n\t\t\t\tval[0] = value(f)\n\t\t\t}\n", Rule: "R06.16", Key: "call/deferred-record"},
	)
}

func init() {
	addMutants(
		// D81b, D82, D83 reverted
		mutant{Name: "deferred-compiled-function-value-read-when-it-runs", Prop: "C06", File: "interp/run.go", Old: "\t\t\tval[0] = fixArg(value(f)) // The function value is fixed when the defer statement executes.\n", New: "\t\t\tval[0] = value(f)\n", Rule: "R06.16", Key: "callBin/deferred-record"},
		mutant{Name: "variadic-position-typed-by-the-slice", Prop: "C07", File: "interp/run.go", Old: "\t\t\t\tif n.action != aCallSlice {\n\t\t\t\t\t// The argument is an element of the variadic parameter.\n\t\t\t\t\tdefType = defType.Elem()\n\t\t\t\t}\n", New: "", Rule: "R07.18", Key: "callBin/variadic-position-type#2:defType"},
		mutant{Name: "map-entry-of-a-multiple-assignment-set-on-its-temporary", Prop: "C04", File: "interp/run.go", Old: "\tif isMapEntry(n) {\n\t\tm, k := genValue(n.child[0]), genValue(n.child[1])\n\t\treturn func(f *frame, v reflect.Value) { m(f).SetMapIndex(k(f), v) }\n\t}\n", New: "", Rule: "R04.15", Key: "assignFromCall/map-entry-set-in-its-map"},
	)
}

func init() {
	addMutants(
		// D84-D86 reverted
		mutant{Name: "switch-tag-after-an-init-statement-not-wired", Prop: "C01", File: "interp/cfg.go", Old: "\t\t\t} else {\n\t\t\t\twireSwitchHeader(n, sbn.start)\n\t\t\t}\n", New: "\t\t\t} else {\n\t\t\t\tn.child[0].tnext = sbn.start\n\t\t\t}\n", Rule: "R01.28", Key: "cfg/case:switchStmt/header-chained-as-a-whole"},
		mutant{Name: "labels-of-case-bodies-not-declared", Prop: "C01", File: "interp/cfg.go", Old: "\t\tcase caseBody:\n\t\t\t// The body of a case clause is a block: it can define labels too.\n\t\t\tdeclareLabels(sc, n)\n\n", New: "", Rule: "R01.29", Key: "cfg/pre-order:caseBody/labels-declared"},
		mutant{Name: "map-key-evaluated-while-assigning", Prop: "C04", File: "interp/run.go", Old: "\t\t\tif ivalue[i] != nil {\n\t\t\t\tmaps[i].SetMapIndex(keys[i], t[i]) // Assign a map entry\n", New: "\t\t\tif j := ivalue[i]; j != nil {\n\t\t\t\td(f).SetMapIndex(j(f), t[i]) // Assign a map entry\n", Rule: "R04.16", Key: "assign/closure"},
	)
}

func init() {
	addMutants(
		// D87-D89 reverted
		mutant{Name: "iota-counts-names", Prop: "C03", File: "interp/gta.go", Old: "\t\t\t\t\tif i == n.nleft-1 {\n\t\t\t\t\t\t// All the constants of the specification are defined.\n\t\t\t\t\t\tif childPos(n) == len(n.anc.child)-1 {\n\t\t\t\t\t\t\tsc.iota = 0\n\t\t\t\t\t\t} else {\n\t\t\t\t\t\t\tsc.iota++\n\t\t\t\t\t\t}\n\t\t\t\t\t}\n", New: "\t\t\t\t\tif childPos(n) == len(n.anc.child)-1 {\n\t\t\t\t\t\tsc.iota = 0\n\t\t\t\t\t} else {\n\t\t\t\t\t\tsc.iota++\n\t\t\t\t\t}\n", Rule: "R03.5", Key: "Interpreter.gta/iota"},
		mutant{Name: "implicit-repetition-at-the-first-name", Prop: "C03", File: "interp/ast.go", Old: " && n.anc.nright == 0 && len(n.anc.child) == n.anc.nleft {", New: " && n.anc.nright == 0 {", Rule: "R03.15", Key: "ast/implicit-repetition/after-the-last-name"},
		mutant{Name: "goroutine-function-value-read-late", Prop: "C08", File: "interp/run.go", Old: "\t\t\t\tbf = fixArg(bf)\n", New: "", Rule: "R08.9", Key: "call/go#1/function-value-copied:bf"},
		mutant{Name: "goroutine-compiled-function-value-read-late", Prop: "C08", File: "interp/run.go", Old: "\t\t\t}(fixArg(value(f)), in)\n", New: "\t\t\t}(value(f), in)\n", Rule: "R08.9", Key: "callBin/go#1"},
	)
}

func init() {
	addMutants(
		mutant{Name: "benign-goroutine-function-value-copied-inline", Prop: "C08", File: "interp/run.go", Old: "\t\t\t\tbf = fixArg(bf)\n", New: "\t\t\t\tbfc := reflect.New(bf.Type()).Elem()\n\t\t\t\tbfc.Set(bf)\n\t\t\t\tbf = bfc\n", Benign: true},
	)
}

func init() {
	addMutants(
		// round-6 seeds on the constant code
		mutant{Name: "exact-check-skipped-for-non-growing-operators", Prop: "C03", File: "interp/typecheck.go", Old: "\t\tv = constant.BinaryOp(x, tok, y)\n\t}\n", New: "\t\tif tok == token.REM || tok == token.QUO_ASSIGN {\n\t\t\treturn nil\n\t\t}\n\t\tv = constant.BinaryOp(x, tok, y)\n\t}\n", Rule: "R03.17", Key: "typecheck.constExpr/acceptance#7/independent-of-the-operator"},
		mutant{Name: "negation-folded-into-the-operand", Prop: "C03", File: "interp/op.go", Old: "\tn.rval = reflect.New(t).Elem()\n\tswitch {\n\tcase isConst:\n\t\tv := constant.UnaryOp(token.SUB, vConstantValue(v0), 0)\n", New: "\tn.rval = v0\n\tswitch {\n\tcase isConst:\n\t\tv := constant.UnaryOp(token.SUB, vConstantValue(v0), 0)\n", Rule: "R03.18", Key: "negConst/result-is-a-fresh-value"},
		mutant{Name: "unsigned-representable-by-bit-length-only", Prop: "C03", File: "interp/typecheck.go", Old: "\t\t\tif _, ok := constant.Uint64Val(x); !ok {\n\t\t\t\treturn false\n\t\t\t}\n\t\tdefault:", New: "\t\t\tif bitlen[t.Kind()] == 64 {\n\t\t\t\tif _, ok := constant.Uint64Val(x); !ok {\n\t\t\t\t\treturn false\n\t\t\t\t}\n\t\t\t}\n\t\tdefault:", Rule: "R03.19", Key: "representableConst/unsigned/negative-constants-rejected"},
		mutant{Name: "constantOf-by-predicates-signed", Prop: "C03", File: "interp/value.go", Old: "\tcase reflect.Int, reflect.Int8, reflect.Int16, reflect.Int32, reflect.Int64:\n\t\treturn constant.MakeInt64(v.Int())\n\tcase reflect.Uint, reflect.Uint8, reflect.Uint16, reflect.Uint32, reflect.Uint64, reflect.Uintptr:\n\t\treturn constant.MakeUint64(v.Uint())\n\tcase reflect.Float32, reflect.Float64:\n\t\treturn constant.MakeFloat64(v.Float())\n\tcase reflect.Complex64, reflect.Complex128:\n", New: "\t}\n\tswitch t := v.Type(); {\n\tcase isInt(t):\n\t\treturn constant.MakeInt64(vInt(v))\n\tcase isFloat(t):\n\t\treturn constant.MakeFloat64(v.Float())\n\tcase isComplex(t):\n", Rule: "R03.20", Key: "constantOf/unsigned-kinds-read-as-signed#1"},
		mutant{Name: "benign-constantOf-by-predicates-unsigned-first", Prop: "C03", File: "interp/value.go", Old: "\tcase reflect.Int, reflect.Int8, reflect.Int16, reflect.Int32, reflect.Int64:\n\t\treturn constant.MakeInt64(v.Int())\n\tcase reflect.Uint, reflect.Uint8, reflect.Uint16, reflect.Uint32, reflect.Uint64, reflect.Uintptr:\n\t\treturn constant.MakeUint64(v.Uint())\n\tcase reflect.Float32, reflect.Float64:\n\t\treturn constant.MakeFloat64(v.Float())\n\tcase reflect.Complex64, reflect.Complex128:\n", New: "\t}\n\tswitch t := v.Type(); {\n\tcase isUint(t):\n\t\treturn constant.MakeUint64(vUint(v))\n\tcase isInt(t):\n\t\treturn constant.MakeInt64(vInt(v))\n\tcase isFloat(t):\n\t\treturn constant.MakeFloat64(v.Float())\n\tcase isComplex(t):\n", Benign: true},
		mutant{Name: "benign-exact-check-shift-count-test-moved", Prop: "C03", File: "interp/typecheck.go", Old: "\t\tif !exact {\n\t\t\treturn nil\n\t\t}\n", New: "\t\tif exact == false {\n\t\t\treturn nil\n\t\t}\n", Benign: true},
	)
}

func init() {
	addMutants(
		// round-6 seeds on C01
		mutant{Name: "no-copy-back-for-a-for-without-condition-and-post", Prop: "C01", File: "interp/cfg.go", Old: "\tbody.start = body.child[0] // loopvar\n\tfor i, fi := range forInitVars(n) {\n", New: "\tbody.start = body.child[0] // loopvar\n\tif n.kind == forStmt1 {\n\t\treturn\n\t}\n\tfor i, fi := range forInitVars(n) {\n", Rule: "R01.3", Key: "setLoopVarBody/installs-loopVarBack-for-every-statement-kind"},
		mutant{Name: "struct-literal-built-in-its-destination", Prop: "C01", File: "interp/run.go", Old: "\t\ta := reflect.New(rt).Elem()\n\t\tfor i, v := range values {\n\t\t\ta.Field(i).Set(v(f))\n\t\t}\n\t\td := value(f)\n\t\tswitch {\n\t\tcase d.Kind() == reflect.Ptr:\n\t\t\td.Set(a.Addr())\n\t\tcase destInterface:", New: "\t\td := value(f)\n\t\tif isAssign && !destInterface && d.Kind() == reflect.Struct && d.Type() == rt {\n\t\t\td.Set(reflect.Zero(rt))\n\t\t\tfor i, v := range values {\n\t\t\t\td.Field(i).Set(v(f))\n\t\t\t}\n\t\t\treturn next\n\t\t}\n\t\ta := reflect.New(rt).Elem()\n\t\tfor i, v := range values {\n\t\t\ta.Field(i).Set(v(f))\n\t\t}\n\t\tswitch {\n\t\tcase d.Kind() == reflect.Ptr:\n\t\t\td.Set(a.Addr())\n\t\tcase destInterface:", Rule: "R01.30", Key: "doComposite/closure#1/built-apart-from-the-destination"},
		mutant{Name: "second-call-operand-of-return-not-copied", Prop: "C01", File: "interp/run.go", Old: "\tcase 2:\n\t\tv0, v1 := values[0], values[1]\n", New: "\tcase 2:\n\t\tv0, v1 := values[0], values[1]\n\t\tif isCall(child[1]) && child[1].typ.id() == def.typ.ret[1].id() {\n\t\t\tv1 = func(f *frame) reflect.Value { return f.data[1] }\n\t\t}\n", Rule: "R01.31", Key: "_return/call-operands-not-copied-are-those-cfg-stores-directly"},
		mutant{Name: "benign-struct-literal-destination-read-first", Prop: "C01", File: "interp/run.go", Old: "\t\ta := reflect.New(rt).Elem()\n\t\tfor i, v := range values {\n\t\t\ta.Field(i).Set(v(f))\n\t\t}\n\t\td := value(f)\n\t\tswitch {\n\t\tcase d.Kind() == reflect.Ptr:\n\t\t\td.Set(a.Addr())\n\t\tcase destInterface:", New: "\t\td := value(f)\n\t\ta := reflect.New(rt).Elem()\n\t\tfor i, v := range values {\n\t\t\ta.Field(i).Set(v(f))\n\t\t}\n\t\tswitch {\n\t\tcase d.Kind() == reflect.Ptr:\n\t\t\td.Set(a.Addr())\n\t\tcase destInterface:", Benign: true},
	)
}

func init() {
	addMutants(
		// round-6 seeds on C05
		mutant{Name: "field-path-of-the-receiver-walked-without-unwrapping", Prop: "C05", File: "interp/value.go", Old: "\t\t\tr = r.Field(i)\n\t\t\tvi, ok := r.Interface().(valueInterface)\n\t\t\tif ok {\n\t\t\t\tr = vi.value\n\t\t\t}\n", New: "\t\t\tr = r.Field(i)\n", Rule: "R05.14", Key: "genValueRecv/receiver-path-walked-through-interface-wrappers"},
		mutant{Name: "method-depth-only-for-types-declaring-methods", Prop: "C05", File: "interp/cfg.go", Old: "\t\t\t\t\tif isStruct(n.typ) {\n\t\t\t\t\t\t// If a method of the same name exists, use it if it is shallower than the struct field.\n\t\t\t\t\t\t// if method's depth is the same as field's, this is an error.\n\t\t\t\t\t\t// (The depth of a field is the length of its index path minus one.)\n\t\t\t\t\t\td := n.typ.methodDepth(n.child[1].ident)\n\t\t\t\t\t\tif d >= 0 && d < len(ti)-1 {", New: "\t\t\t\t\tif isStruct(n.typ) && len(n.typ.method) > 0 {\n\t\t\t\t\t\t// If a method of the same name exists, use it if it is shallower than the struct field.\n\t\t\t\t\t\t// if method's depth is the same as field's, this is an error.\n\t\t\t\t\t\t// (The depth of a field is the length of its index path minus one.)\n\t\t\t\t\t\td := n.typ.methodDepth(n.child[1].ident)\n\t\t\t\t\t\tif d >= 0 && d < len(ti)-1 {", Rule: "R05.13", Key: "cfg/selector/depth-comparison#1/whatever-the-type-declares"},
		mutant{Name: "assertion-status-set-explicitly-one-exit-forgotten", Prop: "C05", File: "interp/run.go", Old: "\t\t\tv, ok := valf.Interface().(valueInterface)\n\t\t\tif ok && v.node == nil {\n\t\t\t\t// The zero valueInterface is the nil value of an interface type.\n\t\t\t\tok = false\n\t\t\t}\n\t\t\tif withOk {\n\t\t\t\tdefer func() { assertStatus(f, value0, value1, setStatus, ok) }()\n\t\t\t}\n\t\t\tif !ok {\n\t\t\t\tif !withOk {\n\t\t\t\t\tpanic(n.cfgErrorf(\"interface conversion: nil is not %v\", typID))\n\t\t\t\t}\n\t\t\t\treturn next\n\t\t\t}\n", New: "\t\t\tv, ok := valf.Interface().(valueInterface)\n\t\t\tif ok && v.node == nil {\n\t\t\t\tok = false\n\t\t\t}\n\t\t\tif !ok {\n\t\t\t\tif !withOk {\n\t\t\t\t\tpanic(n.cfgErrorf(\"interface conversion: nil is not %v\", typID))\n\t\t\t\t}\n\t\t\t\treturn next\n\t\t\t}\n\t\t\tif withOk {\n\t\t\t\tdefer func() { assertStatus(f, value0, value1, setStatus, ok) }()\n\t\t\t}\n", Rule: "R05.12", Key: "typeAssert/closure#1/every-exit-completes-the-two-value-form"},
		mutant{Name: "benign-assertion-status-explicit-before-return", Prop: "C05", File: "interp/run.go", Old: "\t\t\tv, ok := valf.Interface().(valueInterface)\n\t\t\tif ok && v.node == nil {\n\t\t\t\t// The zero valueInterface is the nil value of an interface type.\n\t\t\t\tok = false\n\t\t\t}\n\t\t\tif withOk {\n\t\t\t\tdefer func() { assertStatus(f, value0, value1, setStatus, ok) }()\n\t\t\t}\n\t\t\tif !ok {\n\t\t\t\tif !withOk {\n\t\t\t\t\tpanic(n.cfgErrorf(\"interface conversion: nil is not %v\", typID))\n\t\t\t\t}\n\t\t\t\treturn next\n\t\t\t}\n", New: "\t\t\tv, ok := valf.Interface().(valueInterface)\n\t\t\tif ok && v.node == nil {\n\t\t\t\tok = false\n\t\t\t}\n\t\t\tif !ok {\n\t\t\t\tif !withOk {\n\t\t\t\t\tpanic(n.cfgErrorf(\"interface conversion: nil is not %v\", typID))\n\t\t\t\t}\n\t\t\t\tassertStatus(f, value0, value1, setStatus, false)\n\t\t\t\treturn next\n\t\t\t}\n\t\t\tif withOk {\n\t\t\t\tdefer func() { assertStatus(f, value0, value1, setStatus, ok) }()\n\t\t\t}\n", Benign: true},
	)
}

func init() {
	addMutants(
		// round-6 seed on C06
		mutant{Name: "normal-return-skips-the-test-of-recovered", Prop: "C06", File: "interp/run.go", Old: "\t\tfor _, val := range deferred {\n\t\t\tf.callDeferred(val)\n\t\t}\n\n\t\tf.mutex.Lock()\n\t\tif f.recovered != nil {\n", New: "\t\tfor _, val := range deferred {\n\t\t\tf.callDeferred(val)\n\t\t}\n\t\tif exec == nil {\n\t\t\treturn\n\t\t}\n\n\t\tf.mutex.Lock()\n\t\tif f.recovered != nil {\n", Rule: "R06.4", Key: "runCfg/unwind/no-exit-between-deferred-and-repanic"},
	)
}

func init() {
	addMutants(
		// round-6 seeds on C04
		mutant{Name: "only-variable-sources-saved-in-a-multiple-assignment", Prop: "C04", File: "interp/run.go", Old: "\tn.exec = func(f *frame) bltn {\n\t\tt := make([]reflect.Value, len(svalue))\n\t\tfor i, s := range svalue {\n\t\t\tif n.child[i].ident == \"_\" {\n\t\t\t\tcontinue\n\t\t\t}\n\t\t\t// The temporary has the type of the value: the static type of the\n\t\t\t// source may be an interface, or the untyped nil.\n\t\t\tv := s(f)\n\t\t\tt[i] = reflect.New(v.Type()).Elem()\n\t\t\tt[i].Set(v)\n\t\t}\n\t\t// The map and key operands", New: "\ttemp := func(f *frame, i int) reflect.Value {\n\t\tv := svalue[i](f)\n\t\tif k := n.child[sbase+i].kind; k != identExpr && k != indexExpr && k != selectorExpr {\n\t\t\treturn v\n\t\t}\n\t\tt := reflect.New(v.Type()).Elem()\n\t\tt.Set(v)\n\t\treturn t\n\t}\n\tn.exec = func(f *frame) bltn {\n\t\tt := make([]reflect.Value, len(svalue))\n\t\tfor i := range svalue {\n\t\t\tif n.child[i].ident == \"_\" {\n\t\t\t\tcontinue\n\t\t\t}\n\t\t\tt[i] = temp(f, i)\n\t\t}\n\t\t// The map and key operands", Rule: "R04.1", Key: "assign/multi-closure#2"},
		mutant{Name: "benign-sources-saved-through-a-helper", Prop: "C04", File: "interp/run.go", Old: "\tn.exec = func(f *frame) bltn {\n\t\tt := make([]reflect.Value, len(svalue))\n\t\tfor i, s := range svalue {\n\t\t\tif n.child[i].ident == \"_\" {\n\t\t\t\tcontinue\n\t\t\t}\n\t\t\t// The temporary has the type of the value: the static type of the\n\t\t\t// source may be an interface, or the untyped nil.\n\t\t\tv := s(f)\n\t\t\tt[i] = reflect.New(v.Type()).Elem()\n\t\t\tt[i].Set(v)\n\t\t}\n\t\t// The map and key operands", New: "\ttemp := func(f *frame, i int) reflect.Value {\n\t\tv := svalue[i](f)\n\t\tt := reflect.New(v.Type()).Elem()\n\t\tt.Set(v)\n\t\treturn t\n\t}\n\tn.exec = func(f *frame) bltn {\n\t\tt := make([]reflect.Value, len(svalue))\n\t\tfor i := range svalue {\n\t\t\tif n.child[i].ident == \"_\" {\n\t\t\t\tcontinue\n\t\t\t}\n\t\t\tt[i] = temp(f, i)\n\t\t}\n\t\t// The map and key operands", Benign: true},
		mutant{Name: "zero-value-of-composite-types-memoized", Prop: "C04", File: "interp/type.go", Old: "\tcase arrayT, ptrT, structT, sliceT:\n\t\tv = reflect.New(t.frameType()).Elem()\n", New: "\tcase arrayT, ptrT, structT, sliceT:\n\t\tif z, ok := compositeZero[t]; ok {\n\t\t\tv = z\n\t\t\tbreak\n\t\t}\n\t\tv = reflect.New(t.frameType()).Elem()\n\t\tcompositeZero[t] = v\n", Also: [][3]string{{"interp/type.go", "func (t *itype) zero() (v reflect.Value, err error) {\n", "var compositeZero = map[*itype]reflect.Value{}\n\nfunc (t *itype) zero() (v reflect.Value, err error) {\n"}}, Rule: "R04.17", Key: "arrayLit/closure#1/populates-a-value-of-its-own"},
		mutant{Name: "reference-kinds-not-copied-by-the-argument-copier", Prop: "C04", File: "interp/run.go", Old: "\tif !v.CanSet() {\n\t\treturn v\n\t}\n\tc := reflect.New(v.Type()).Elem()\n", New: "\tif !v.CanSet() || v.Kind() == reflect.Slice {\n\t\treturn v\n\t}\n\tc := reflect.New(v.Type()).Elem()\n", Rule: "R04.18", Key: "fixArg/settable-argument-copied"},
	)
}

func init() {
	addMutants(
		// round-6 seeds on C07
		mutant{Name: "wrapper-type-remembered-per-host-interface", Prop: "C07", File: "interp/use.go", Old: "\t// Otherwise return the direct \"non-composed\" interface.\n\treturn w.Type().Elem()\n", New: "\t// Otherwise return the direct \"non-composed\" interface.\n\twrapperMemo.Store(t, w.Type().Elem())\n\treturn w.Type().Elem()\n", Also: [][3]string{{"interp/use.go", "func getWrapper(n *node, t reflect.Type) reflect.Type {\n", "var wrapperMemo sync.Map\n\nfunc getWrapper(n *node, t reflect.Type) reflect.Type {\n\tif rt, ok := wrapperMemo.Load(t); ok {\n\t\treturn rt.(reflect.Type)\n\t}\n"}, {"interp/use.go", "\t\"reflect\"\n", "\t\"reflect\"\n\t\"sync\"\n"}}, Rule: "R07.19", Key: "getWrapper/recomputed-at-each-use"},
		mutant{Name: "results-of-a-compiled-call-recreate-redeclared-variables", Prop: "C07", File: "interp/run.go", Old: "\t\t\t\t\tif n.anc.kind == defineXStmt && !c.redeclared {\n\t\t\t\t\t\t// In case of a define statement, the destination value in the frame\n", New: "\t\t\t\t\tif n.anc.kind == defineXStmt {\n\t\t\t\t\t\t// In case of a define statement, the destination value in the frame\n", Rule: "R07.20", Key: "callBin/closure#6/slot-replaced-unless-redeclared"},
		mutant{Name: "results-of-a-compiled-call-recreate-redeclared-variables-c04", Prop: "C04", File: "interp/run.go", Old: "\t\t\t\t\tif n.anc.kind == defineXStmt && !c.redeclared {\n\t\t\t\t\t\t// In case of a define statement, the destination value in the frame\n", New: "\t\t\t\t\tif n.anc.kind == defineXStmt {\n\t\t\t\t\t\t// In case of a define statement, the destination value in the frame\n", Rule: "R04.13", Key: "callBin/closure#6/slot-replaced-unless-redeclared"},
		mutant{Name: "deferred-compiled-call-arguments-not-unwrapped", Prop: "C07", File: "interp/run.go", Old: "\t\t\t\tval[i+1] = fixArg(getBinValue(getMapType, v, f))\n", New: "\t\t\t\tval[i+1] = fixArg(v(f))\n", Rule: "R07.1", Key: "callBin/closure#1/arguments"},
	)
}

func init() {
	addMutants(
		// round-6 seeds on C08 and C09
		mutant{Name: "receive-status-dropped-on-the-slow-path", Prop: "C08", File: "interp/run.go", Old: "\t\t\tchosen, v, ok := reflect.Select([]reflect.SelectCase{done, {Dir: reflect.SelectRecv, Chan: ch}})\n\t\t\tif chosen == 0 {\n\t\t\t\treturn nil\n\t\t\t}\n\t\t\tresult.Set(v)\n\t\t\tstatus.SetBool(ok)\n", New: "\t\t\tchosen, v, _ := reflect.Select([]reflect.SelectCase{done, {Dir: reflect.SelectRecv, Chan: ch}})\n\t\t\tif chosen == 0 {\n\t\t\t\treturn nil\n\t\t\t}\n\t\t\tresult.Set(v)\n\t\t\tstatus.SetBool(v.IsValid())\n", Rule: "R08.10", Key: "recv2/closure#1/status#2/from-the-receive-operation"},
		mutant{Name: "callback-wrapper-built-once-per-site", Prop: "C09", File: "interp/run.go", Old: "\t\t\t// fixes #1634, if v is already a func, then don't re-wrap\n\t\t\t// because original wrapping cloned the frame but this doesn't\n\t\t\treturn v\n\t\t}\n", New: "\t\t\t// fixes #1634, if v is already a func, then don't re-wrap\n\t\t\t// because original wrapping cloned the frame but this doesn't\n\t\t\treturn v\n\t\t}\n\t\tif rcvr == nil && !isDefer {\n\t\t\tif firstFrame == nil {\n\t\t\t\tfirstFrame = f\n\t\t\t}\n\t\t\tf = firstFrame\n\t\t}\n", Also: [][3]string{{"interp/run.go", "\tvalue := genValue(n)\n\tisDefer := false\n", "\tvalue := genValue(n)\n\tvar firstFrame *frame\n\tisDefer := false\n"}}, Rule: "R09.8", Key: "genFunctionWrapper/captured:firstFrame"},
	)
}

func init() {
	addMutants(
		// round-6 seeds on C11 and C12
		mutant{Name: "statements-compiled-once-per-source-text", Prop: "C11", File: "interp/program.go", Old: "\treturn interp.CompileAST(n)\n}\n", New: "\tif p := lastProgram[src]; p != nil && inc {\n\t\treturn p, nil\n\t}\n\tp, err := interp.CompileAST(n)\n\tif err == nil && inc {\n\t\tlastProgram[src] = p\n\t}\n\treturn p, err\n}\n\nvar lastProgram = map[string]*Program{}\n", Rule: "R11.13", Key: "Interpreter.compileSrc/program-compiled-by-this-call"},
		mutant{Name: "benign-compileSrc-through-a-local", Prop: "C11", File: "interp/program.go", Old: "\treturn interp.CompileAST(n)\n}\n", New: "\tp, err := interp.CompileAST(n)\n\tif err != nil {\n\t\treturn nil, err\n\t}\n\treturn p, nil\n}\n", Benign: true},
		mutant{Name: "representability-skipped-for-the-default-type", Prop: "C12", File: "interp/typecheck.go", Old: "\tif err := check.representable(n, rtyp); err != nil {\n\t\treturn err\n\t}\n\tn.rval, err = check.convertConst(n.rval, rtyp)\n", New: "\tif ityp != n.typ {\n\t\tif err := check.representable(n, rtyp); err != nil {\n\t\t\treturn err\n\t\t}\n\t}\n\tn.rval, err = check.convertConst(n.rval, rtyp)\n", Rule: "R12.17", Key: "typecheck.convertUntyped/conversion#1/after-the-representability-check"},
		mutant{Name: "duplicate-index-only-for-keyed-elements", Prop: "C12", File: "interp/typecheck.go", Old: "\t\tif visited[index] {\n\t\t\treturn n.cfgErrorf(\"duplicate index %d in array or slice literal\", index)\n\t\t}\n", New: "\t\tif c.kind == keyValueExpr {\n\t\t\tif visited[index] {\n\t\t\t\treturn n.cfgErrorf(\"duplicate index %d in array or slice literal\", index)\n\t\t\t}\n\t\t}\n", Rule: "R12.18", Key: "typecheck.arrayLitExpr/duplicate-index-test#1/for-every-element"},
		mutant{Name: "source-package-registered-before-its-check", Prop: "C12", File: "interp/src.go", Old: "\t// Generate control flow graphs.\n\tfor _, root := range rootNodes {\n\t\tvar nodes []*node\n\t\tif nodes, err = interp.cfg(root, nil, importPath, pkgName); err != nil {\n\t\t\treturn \"\", err\n\t\t}\n\t\tinitNodes = append(initNodes, nodes...)\n\t}\n", New: "\tinterp.mutex.Lock()\n\tif s := interp.scopes[importPath]; s != nil {\n\t\tinterp.srcPkg[importPath] = s.sym\n\t}\n\tinterp.mutex.Unlock()\n\t// Generate control flow graphs.\n\tfor _, root := range rootNodes {\n\t\tvar nodes []*node\n\t\tif nodes, err = interp.cfg(root, nil, importPath, pkgName); err != nil {\n\t\t\treturn \"\", err\n\t\t}\n\t\tinitNodes = append(initNodes, nodes...)\n\t}\n", Rule: "R12.19", Key: "importSrc/registration#1/after-the-checking-passes"},
	)
}

func init() {
	addMutants(
		// round-6 seeds on C13 and C15
		mutant{Name: "print-overrides-only-for-non-file-streams", Prop: "C13", File: "interp/use.go", Old: "\tp[\"Print\"] = reflect.ValueOf(func(a ...interface{}) (n int, err error) { return fmt.Fprint(stdout, a...) })\n", New: "\tif _, isFile := stdout.(*os.File); !isFile {\n\t\tp[\"Print\"] = reflect.ValueOf(func(a ...interface{}) (n int, err error) { return fmt.Fprint(stdout, a...) })\n\t}\n", Rule: "R13.5", Key: "fmt.Print/unconditional"},
		mutant{Name: "uninitialised-variables-are-no-dependencies", Prop: "C15", File: "interp/cfg.go", Old: "\t\t\tcase sym.kind == varSym && sym.node != nil && sym.node != nod:\n\t\t\t\tdeps = append(deps, sym.node)\n", New: "\t\t\tcase sym.kind == varSym && sym.node != nil && sym.node != nod:\n\t\t\t\tif sym.node.kind != valueSpec {\n\t\t\t\t\tdeps = append(deps, sym.node)\n\t\t\t\t}\n", Rule: "R15.14", Key: "getVarDependencies/variable-case#1/every-variable-is-a-dependency"},
	)
}

func init() {
	addMutants(
		// round-6 seeds on C16-C19
		mutant{Name: "directory-listings-remembered-by-path", Prop: "C16", File: "interp/src.go", Old: "\tfiles, err := fs.ReadDir(interp.opt.filesystem, dir)\n\tif err != nil {\n\t\treturn \"\", err\n\t}\n", New: "\tfiles, found := listings[dir]\n\tif !found {\n\t\tif files, err = fs.ReadDir(interp.opt.filesystem, dir); err != nil {\n\t\t\treturn \"\", err\n\t\t}\n\t\tlistings[dir] = files\n\t}\n", Also: [][3]string{{"interp/src.go", "const vendor = \"vendor\"\n", "const vendor = \"vendor\"\n\nvar listings = map[string][]fs.DirEntry{}\n"}}, Rule: "R16.8", Key: "package/no-process-wide-memo-table"},
		mutant{Name: "vendor-walk-stops-below-the-hosting-directory", Prop: "C16", File: "interp/src.go", Old: "\t\t\tparent = filepath.Dir(parent)\n\t\t\tif parent == prefix {\n", New: "\t\t\tparent = filepath.Dir(parent)\n\t\t\tif parent == prefix || filepath.Dir(parent) == prefix {\n", Rule: "R16.5", Key: "previousRoot/stop-at-the-source-root#3"},
		mutant{Name: "constraint-line-verdicts-remembered", Prop: "C17", File: "interp/build.go", Old: "\t\t\tif !buildLineOk(ctx, line) {\n\t\t\t\treturn false, nil\n\t\t\t}\n", New: "\t\t\tok, found := interp.pkgNames[line]\n\t\t\tif !found {\n\t\t\t\tok = \"no\"\n\t\t\t\tif buildLineOk(ctx, line) {\n\t\t\t\t\tok = \"yes\"\n\t\t\t\t}\n\t\t\t\tinterp.pkgNames[line] = ok\n\t\t\t}\n\t\t\tif ok == \"no\" {\n\t\t\t\treturn false, nil\n\t\t\t}\n", Rule: "R17.14", Key: "Interpreter.buildOk/remembers-nothing"},
		mutant{Name: "basic-types-spelled-by-their-name", Prop: "C18", File: "extract/extract.go", Old: "\t\t\t\t\t\tresults[j] = v.Name() + \" \" + types.TypeString(v.Type(), qualify)\n", New: "\t\t\t\t\t\tif b, ok := v.Type().(*types.Basic); ok {\n\t\t\t\t\t\t\tresults[j] = v.Name() + \" \" + b.Name()\n\t\t\t\t\t\t\tcontinue\n\t\t\t\t\t\t}\n\t\t\t\t\t\tresults[j] = v.Name() + \" \" + types.TypeString(v.Type(), qualify)\n", Rule: "R18.10", Key: "extract/types-spelled-by-the-qualified-writer"},
		mutant{Name: "constant-literals-remembered-between-extractions", Prop: "C18", File: "extract/extract.go", Old: "\timports[\"go/constant\"] = true\n\timports[\"go/token\"] = true\n\n", New: "\timports[\"go/constant\"] = true\n\timports[\"go/token\"] = true\n\tseenConst[str] = tok\n\n", Also: [][3]string{{"extract/extract.go", "var restricted = map[string]bool{\n", "var seenConst = map[string]string{}\n\nvar restricted = map[string]bool{\n"}}, Rule: "R18.11", Key: "extract/no-state-between-extractions"},
		mutant{Name: "exec-nodes-remembered-by-code-address", Prop: "C19", File: "interp/run.go", Old: "\texecAddr := reflect.ValueOf(exec).Pointer()\n", New: "\texecAddr := reflect.ValueOf(exec).Pointer()\n\tif m := n.interp.generic[fmt.Sprint(execAddr)]; m != nil {\n\t\treturn m\n\t}\n\tif m := execNodes[execAddr]; m != nil {\n\t\treturn m\n\t}\n", Also: [][3]string{{"interp/run.go", "func originalExecNode(", "var execNodes = map[uintptr]*node{}\n\nfunc originalExecNode("}}, Rule: "R19.11", Key: "package/no-table-keyed-by-a-code-address"},
		mutant{Name: "frame-debug-data-dropped-when-the-call-exits", Prop: "C19", File: "interp/debugger.go", Old: "\t\tdbg.exitGoRoutine(f.debug.g)\n\t\tdbg.events(&DebugEvent{dbg, DebugExitGoRoutine, f})\n\t}\n", New: "\t\tdbg.exitGoRoutine(f.debug.g)\n\t\tdbg.events(&DebugEvent{dbg, DebugExitGoRoutine, f})\n\t}\n\tif f.debug.kind != frameRoot {\n\t\tf.debug = nil\n\t}\n", Rule: "R19.12", Key: "package/frame-debug-data-never-dropped"},
	)
}

func init() {
	addMutants(
		// round-6 seed C10-4 (deferred calls of a cancelled frame dropped), for C06 and C10
		mutant{Name: "deferred-calls-of-a-cancelled-frame-dropped", Prop: "C06", File: "interp/run.go", Old: "\t\tdeferred := f.deferred\n\t\tf.mutex.Unlock()\n", New: "\t\tdeferred := f.deferred\n\t\tif f.runid() != n.interp.runid() {\n\t\t\tdeferred = nil\n\t\t}\n\t\tf.mutex.Unlock()\n", Rule: "R06.2", Key: "runCfg/consumer/list-not-replaced"},
		mutant{Name: "deferred-calls-of-a-cancelled-frame-dropped-c10", Prop: "C10", File: "interp/run.go", Old: "\t\tdeferred := f.deferred\n\t\tf.mutex.Unlock()\n", New: "\t\tdeferred := f.deferred\n\t\tif f.runid() != n.interp.runid() {\n\t\t\tdeferred = nil\n\t\t}\n\t\tf.mutex.Unlock()\n", Rule: "R10.6", Key: "runCfg/consumer/list-not-replaced"},
	)
}

func init() {
	addMutants(
		// D90 reverted
		mutant{Name: "function-literal-slot-restored-when-the-call-returns", Prop: "C08", File: "interp/run.go", Old: "\t\t\trunCfg(n.child[3].start, fr2, n, n)\n\n\t\t\treturn fr2.data[:numRet]\n", New: "\t\t\trunCfg(n.child[3].start, fr2, n, n)\n\n\t\t\tf.mutex.Lock()\n\t\t\tgetFrame(f, l).data[i] = reflect.Value{}\n\t\t\tf.mutex.Unlock()\n\n\t\t\treturn fr2.data[:numRet]\n", Rule: "R08.11", Key: "getFunc/callback#1/writes-only-its-own-frame"},
	)
}

func init() {
	addMutants(
		// D91, D92 reverted
		mutant{Name: "pointer-receiver-of-a-method-value-read-at-the-call", Prop: "C05", File: "interp/run.go", Old: "\tif m := n.val.(*node); n.recv != nil && n.recv.node != nil && m.kind == funcDecl {\n\t\trecv = genValueRecv(n)\n\t\tptrRecv = hasPtrRecv(m)\n\t}\n\n\tn.exec = func(f *frame) bltn {\n\t\tnod := *(n.val.(*node))", New: "\tif m := n.val.(*node); n.recv != nil && n.recv.node != nil && m.kind == funcDecl && !hasPtrRecv(m) {\n\t\trecv = genValueRecv(n)\n\t\tptrRecv = hasPtrRecv(m)\n\t}\n\n\tn.exec = func(f *frame) bltn {\n\t\tnod := *(n.val.(*node))", Rule: "R05.11", Key: "getMethod/receiver-generator#1/for-pointer-receivers-too"},
		mutant{Name: "interface-conversion-wraps-the-variable", Prop: "C04", File: "interp/value.go", Old: "\t\treturn reflect.ValueOf(valueInterface{nod, fixArg(v)})\n", New: "\t\treturn reflect.ValueOf(valueInterface{nod, v})\n", Rule: "R04.20", Key: "genValueInterface/interface-wrapper#1/value-copied"},
		mutant{Name: "interface-conversion-wraps-the-variable-c05", Prop: "C05", File: "interp/value.go", Old: "\t\treturn reflect.ValueOf(valueInterface{nod, fixArg(v)})\n", New: "\t\treturn reflect.ValueOf(valueInterface{nod, v})\n", Rule: "R05.15", Key: "genValueInterface/interface-wrapper#1/value-copied"},
		mutant{Name: "interface-conversion-wraps-the-variable-c08", Prop: "C08", File: "interp/value.go", Old: "\t\treturn reflect.ValueOf(valueInterface{nod, fixArg(v)})\n", New: "\t\treturn reflect.ValueOf(valueInterface{nod, v})\n", Rule: "R08.13", Key: "genValueInterface/interface-wrapper#1/value-copied"},
		mutant{Name: "benign-interface-conversion-copies-inline", Prop: "C04", File: "interp/value.go", Old: "\t\treturn reflect.ValueOf(valueInterface{nod, fixArg(v)})\n", New: "\t\tc := reflect.New(v.Type()).Elem()\n\t\tc.Set(v)\n\t\treturn reflect.ValueOf(valueInterface{nod, c})\n", Benign: true},
	)
}

func init() {
	addMutants(
		// D93 reverted
		mutant{Name: "array-literal-always-stored-in-place", Prop: "C04", File: "interp/run.go", Old: "func arrayLit(n *node) {\n\tstore := literalDest(n)\n", New: "func arrayLit(n *node) {\n\tvalue := valueGenerator(n, n.findex)\n\tstore := func(f *frame, v reflect.Value) { value(f).Set(v) }\n", Rule: "R04.19", Key: "arrayLit/closure#1/can-give-the-literal-a-new-variable"},
	)
}

func init() {
	addMutants(
		// D95, D96 reverted
		mutant{Name: "append-spreads-by-operand-types", Prop: "C04", File: "interp/run.go", Old: "\tif n.action == aCallSlice {\n\t\t// The last argument is the slice (or string) of the values to append, as in append(s, t...).\n", New: "\tif len(n.child) == 3 && (n.action == aCallSlice || isArray(n.child[2].typ) && n.child[2].typ.elem().id() == n.typ.elem().id()) {\n\t\t// The last argument is the slice (or string) of the values to append, as in append(s, t...).\n", Rule: "R04.21", Key: "_append/slice-form#1/decided-by-the-ellipsis", Benign: false},
		mutant{Name: "temporaries-typed-from-the-static-source-type", Prop: "C04", File: "interp/run.go", Old: "\t\t\tv := s(f)\n\t\t\tt[i] = reflect.New(v.Type()).Elem()\n\t\t\tt[i].Set(v)\n", New: "\t\t\tv := s(f)\n\t\t\tt[i] = reflect.New(n.child[sbase+i].typ.TypeOf()).Elem()\n\t\t\tt[i].Set(v)\n", Rule: "R04.22", Key: "assign/closure#6/temporary#2/typed-by-the-value"},
	)
}

func init() {
	addMutants(
		// D94 reverted
		mutant{Name: "breakpoints-set-by-generating-code", Prop: "C19", File: "interp/debugger.go", Old: "n.action != aNop && n.exec != nil {", New: "n.action != aNop && getExec(n) != nil {", Rule: "R19.13", Key: "Debugger.SetBreakpoints/generates-no-code"},
	)
}

func init() {
	addMutants(
		// D97 reverted
		mutant{Name: "not-nil-always-reads-the-left-operand", Prop: "C02", File: "interp/cfg.go", Old: "\t\t\t\t\t\tn.gen = isNotNilChild(operand)\n", New: "\t\t\t\t\t\tn.gen = isNotNilChild(0)\n", Rule: "R02.17", Key: "cfg/nil-comparison/generator#2/selected-by-the-nil-operand"},
	)
}

func init() {
	addMutants(
		// D98 reverted
		mutant{Name: "func-field-call-in-return-gets-a-temporary", Prop: "C01", File: "interp/cfg.go", Old: "\t\t\t\t\t\tif directReturn(n, sc.def) {\n\t\t\t\t\t\t\t// The results are stored directly in the frame location\n\t\t\t\t\t\t\t// of the outputs of the current function (see callBin).\n\t\t\t\t\t\t\tn.findex = childPos(n)\n\t\t\t\t\t\t} else {\n\t\t\t\t\t\t\tn.findex = sc.add(n.typ)\n\t\t\t\t\t\t\tfor i := 1; i < len(funcType.ret); i++ {\n\t\t\t\t\t\t\t\tsc.add(funcType.ret[i])\n\t\t\t\t\t\t\t}\n\t\t\t\t\t\t}\n", New: "\t\t\t\t\t\tn.findex = sc.add(n.typ)\n\t\t\t\t\t\tfor i := 1; i < len(funcType.ret); i++ {\n\t\t\t\t\t\t\tsc.add(funcType.ret[i])\n\t\t\t\t\t\t}\n", Rule: "R01.32", Key: "cfg/compiled-call/result-slot#1/not-when-stored-by-position"},
	)
}

func init() {
	addMutants(
		// D99 reverted
		mutant{Name: "forwarded-call-returns-its-first-value-only", Prop: "C01", File: "interp/run.go", Old: "\t\tcase len(operands) > 1:\n\t\t\t// Store each value returned by the call in the corresponding result.\n\t\t\tn.exec = func(f *frame) bltn {\n\t\t\t\tfor i, value := range values {\n\t\t\t\t\tf.data[i].Set(value(f))\n\t\t\t\t}\n\t\t\t\treturn nil\n\t\t\t}\n", New: "", Rule: "R01.33", Key: "_return/single-operand/can-set-several-results"},
	)
}

func init() {
	addMutants(
		// D100 reverted
		mutant{Name: "switch-tag-converted-to-the-case-type", Prop: "C02", File: "interp/run.go", Old: "\t\t\t\tif !v1.Type().AssignableTo(v0.Type()) {\n\t\t\t\t\t// The case value is converted to the type of the tag.\n\t\t\t\t\tif !v1.CanConvert(v0.Type()) {\n\t\t\t\t\t\tcontinue\n\t\t\t\t\t}\n\t\t\t\t\tv1 = v1.Convert(v0.Type())\n\t\t\t\t}\n", New: "\t\t\t\tif !v0.Type().AssignableTo(v1.Type()) {\n\t\t\t\t\tif !v0.CanConvert(v1.Type()) {\n\t\t\t\t\t\tcontinue\n\t\t\t\t\t}\n\t\t\t\t\tv0 = v0.Convert(v1.Type())\n\t\t\t\t}\n", Rule: "R02.18", Key: "_case/closure#7/tag-never-converted"},
	)
}

func init() {
	addMutants(
		// D101 reverted
		mutant{Name: "failed-assertion-on-a-missing-method-does-not-panic", Prop: "C05", File: "interp/run.go", Old: "\t\t\t\tmeth0, ok = m0[k]\n\t\t\t\tif !ok {\n\t\t\t\t\treturn failed(v.node.typ.id(), k)\n\t\t\t\t}\n", New: "\t\t\t\tmeth0, ok = m0[k]\n\t\t\t\tif !ok {\n\t\t\t\t\treturn next\n\t\t\t\t}\n", Rule: "R05.16", Key: "typeAssert/closure#1/failed-single-value-assertion-panics"},
	)
}

func init() {
	addMutants(
		// D102 reverted (one site)
		mutant{Name: "type-switch-on-interface-values-compares-identities", Prop: "C05", File: "interp/run.go", Old: "\t\t\t\t\tfor _, typ := range types {\n\t\t\t\t\t\tif matchValueInterface(vi, typ) {\n\t\t\t\t\t\t\tdestValue(f).Set(val)\n\t\t\t\t\t\t\treturn tnext\n\t\t\t\t\t\t}\n\t\t\t\t\t}\n", New: "\t\t\t\t\tfor _, typ := range types {\n\t\t\t\t\t\tif vi.node != nil && vi.node.typ.id() == typ.id() {\n\t\t\t\t\t\t\tdestValue(f).Set(val)\n\t\t\t\t\t\t\treturn tnext\n\t\t\t\t\t\t}\n\t\t\t\t\t}\n", Rule: "R05.17", Key: "_case/interface-value-branch#2/nil-concrete-and-interface-cases"},
	)
}

func init() {
	addMutants(
		// D103 reverted (methods)
		mutant{Name: "promoted-method-first-hit", Prop: "C05", File: "interp/type.go", Old: "\t\t\t\tif n, index2 := f.typ.lookupMethod2(name, cloneSeen(seen)); n != nil && (m == nil || len(index2)+1 < len(index)) {\n\t\t\t\t\tm, index = n, append([]int{i}, index2...)\n\t\t\t\t}\n", New: "\t\t\t\tif n, index2 := f.typ.lookupMethod2(name, seen); n != nil {\n\t\t\t\t\treturn n, append([]int{i}, index2...)\n\t\t\t\t}\n", Rule: "R05.18", Key: "itype.lookupMethod2/fields-loop#1/shallowest-candidate-kept"},
	)
}

func init() {
	addMutants(
		// D104 reverted
		mutant{Name: "declared-function-returned-as-a-node", Prop: "C01", File: "interp/run.go", Old: "\t\t\t// A declared function is returned as a function value.\n\t\t\tvalues[i] = genFuncValue(c)\n", New: "\t\t\tvalues[i] = genValue(c)\n", Rule: "R01.34", Key: "_return/func-typed-result/declared-function-wrapped"},
		mutant{Name: "named-function-test-on-the-type-node-alone", Prop: "C01", File: "interp/run.go", Old: "\t\tif isNamedFunc(src) {\n", New: "\t\tif isNamedFuncSrc(src.typ) {\n", Rule: "R01.34", Key: "package/type-node-test-not-used-alone"},
	)
}

func init() {
	addMutants(
		// D105, D106 reverted
		mutant{Name: "zero-divisor-rule-for-plain-actions-only", Prop: "C12", File: "interp/typecheck.go", Old: "\tcase aRem, aRemAssign:\n", New: "\tcase aRem:\n", Rule: "R12.20", Key: "typecheck.binaryExpr/zero-divisor-case:aRem/assignment-form-too"},
		mutant{Name: "zero-test-reads-the-value-of-any-untyped-operand", Prop: "C12", File: "interp/typecheck.go", Old: "\tif !n.rval.IsValid() {\n\t\treturn false\n\t}\n\tc := constantOf(n.rval)\n", New: "\tif n.typ.untyped && constant.Sign(n.rval.Interface().(constant.Value)) == 0 {\n\t\treturn true\n\t}\n\tc := constantOf(n.rval)\n", Rule: "R12.20", Key: "zeroConst/value-read-only-when-valid"},
		mutant{Name: "not-enough-results-only-for-unnamed-results", Prop: "C12", File: "interp/cfg.go", Old: "\t\t\tif (mustReturnValue(returnSig) || len(n.child) > 0) && nret < sc.def.typ.numOut() {\n", New: "\t\t\tif mustReturnValue(returnSig) && nret < sc.def.typ.numOut() {\n", Rule: "R12.21", Key: "cfg/case:returnStmt/arity:not-enough"},
	)
}

func init() {
	addMutants(
		// D107 reverted
		mutant{Name: "multiple-definition-from-a-call-not-global", Prop: "C11", File: "interp/cfg.go", Old: "\t\t\tsc.sym[id] = &symbol{index: index, kind: varSym, typ: t, global: sc.global}\n", New: "\t\t\tsc.sym[id] = &symbol{index: index, kind: varSym, typ: t}\n", Rule: "R11.14", Key: "compDefineX/variable-symbol#1/carries-the-global-flag"},
	)
}

func init() {
	addMutants(
		// D108 reverted
		mutant{Name: "declared-names-of-type-expressions-taken-for-variables", Prop: "C15", File: "interp/cfg.go", Old: "\t\t\tif n.anc.kind == fieldExpr && n != n.anc.lastChild() {\n\t\t\t\t// The name of a field, a method or a parameter in a type expression.\n\t\t\t\treturn false\n\t\t\t}\n", New: "", Rule: "R15.15", Key: "getVarDependencies/declared-names-of-type-expressions-ignored"},
		mutant{Name: "every-child-of-a-field-expression-ignored", Prop: "C15", File: "interp/cfg.go", Old: "\t\t\tif n.anc.kind == fieldExpr && n != n.anc.lastChild() {\n", New: "\t\t\tif n.anc.kind == fieldExpr {\n", Rule: "R15.5", Key: "getVarDependencies/skip:fieldExpr"},
	)
}

func init() {
	addMutants(
		mutant{Name: "benign-arity-messages-reworded", Prop: "C12", File: "interp/cfg.go", Old: "\t\t\t\terr = n.cfgErrorf(\"too many arguments to return\")\n", New: "\t\t\t\terr = n.cfgErrorf(\"too many return values\")\n", Benign: true},
		mutant{Name: "benign-switch-tag-generator-renamed", Prop: "C02", File: "interp/run.go", Old: "\t\tl := len(n.anc.anc.child)\n\t\tvalue := genValue(n.anc.anc.child[l-2])\n", New: "\t\tsw := n.anc.anc\n\t\tvalue := genValue(sw.child[len(sw.child)-2])\n", Benign: true},
	)
}

func init() {
	addMutants(
		// D109 reverted
		mutant{Name: "case-expressions-not-checked-against-the-tag", Prop: "C12", File: "interp/cfg.go", Old: "\t\t\t\t\t\tif !e.typ.assignableTo(tag.typ) && !tag.typ.assignableTo(e.typ) {\n\t\t\t\t\t\t\terr = e.cfgErrorf(\"invalid case in switch (mismatched types %s and %s)\", e.typ.id(), tag.typ.id())\n\t\t\t\t\t\t\treturn\n\t\t\t\t\t\t}\n", New: "", Rule: "R12.22", Key: "cfg/case:switchStmt/case-expressions-checked-against-the-tag"},
	)
}

func init() {
	addMutants(
		// D110 reverted (one site)
		mutant{Name: "goroutine-of-an-interpreted-call-without-a-guard", Prop: "C09", File: "interp/run.go", Old: "\t\t\tgo func() {\n\t\t\t\tdefer goGuard(n, f)()\n\t\t\t\trunCfg(def.child[3].start, nf, def, n)\n\t\t\t}()\n", New: "\t\t\tgo func() {\n\t\t\t\trunCfg(def.child[3].start, nf, def, n)\n\t\t\t}()\n", Rule: "R09.9", Key: "call/go#2/panic-of-a-cancelled-run-stops-in-the-goroutine"},
		mutant{Name: "goroutine-guard-swallows-every-panic", Prop: "C09", File: "interp/run.go", Old: "\t\tif r := recover(); r != nil && f.runid() == n.interp.runid() {\n\t\t\tpanic(r)\n\t\t}\n", New: "\t\t_ = recover()\n", Rule: "R09.9", Key: "call/go#1/panic-of-a-cancelled-run-stops-in-the-goroutine"},
	)
}

func init() {
	addMutants(
		// round-7 seed on C19
		mutant{Name: "debugger-not-consulted-while-stepping-over", Prop: "C19", File: "interp/run.go", Old: "\t\tif dbg.exec(m, f) {\n\t\t\tbreak\n\t\t}\n", New: "\t\tif f.debug.g.mode != DebugStepOver && dbg.exec(m, f) {\n\t\t\tbreak\n\t\t}\n", Rule: "R19.14", Key: "runCfg/debugger-loop#1/debugger-consulted-before-every-node"},
	)
}

func init() {
	addMutants(
		// round-7 seeds on C04 and C16
		mutant{Name: "receiver-copied-before-the-dereference", Prop: "C04", File: "interp/run.go", Old: "\t\t\tr := recv(f)\n\t\t\tif !ptrRecv {\n\t\t\t\tfor r.Kind() == reflect.Ptr {\n\t\t\t\t\tr = r.Elem()\n\t\t\t\t}\n\t\t\t}\n\t\t\tif !ptrRecv || r.Kind() == reflect.Ptr {\n\t\t\t\tc := reflect.New(r.Type()).Elem()\n\t\t\t\tc.Set(r)\n\t\t\t\tr = c\n\t\t\t}\n\t\t\tnod.recv = &receiver{val: r}\n", New: "\t\t\tnod.recv = &receiver{val: bindRecv(recv(f), ptrRecv)}\n", Also: [][3]string{{"interp/run.go", "// hasPtrRecv returns true if the method declaration m has a pointer receiver.\n", "func bindRecv(r reflect.Value, ptrRecv bool) reflect.Value {\n\tif ptrRecv && r.Kind() != reflect.Ptr {\n\t\treturn r\n\t}\n\tr = fixArg(r)\n\tif !ptrRecv {\n\t\tfor r.Kind() == reflect.Ptr {\n\t\t\tr = r.Elem()\n\t\t}\n\t}\n\treturn r\n}\n\n// hasPtrRecv returns true if the method declaration m has a pointer receiver.\n"}}, Rule: "R04.23", Key: "getMethod/closure#1/receiver-bound-at-evaluation"},
		mutant{Name: "benign-receiver-bound-by-a-helper", Prop: "C04", File: "interp/run.go", Old: "\t\t\tr := recv(f)\n\t\t\tif !ptrRecv {\n\t\t\t\tfor r.Kind() == reflect.Ptr {\n\t\t\t\t\tr = r.Elem()\n\t\t\t\t}\n\t\t\t}\n\t\t\tif !ptrRecv || r.Kind() == reflect.Ptr {\n\t\t\t\tc := reflect.New(r.Type()).Elem()\n\t\t\t\tc.Set(r)\n\t\t\t\tr = c\n\t\t\t}\n\t\t\tnod.recv = &receiver{val: r}\n", New: "\t\t\tnod.recv = &receiver{val: bindRecv(recv(f), ptrRecv)}\n", Also: [][3]string{{"interp/run.go", "// hasPtrRecv returns true if the method declaration m has a pointer receiver.\n", "func bindRecv(r reflect.Value, ptrRecv bool) reflect.Value {\n\tif !ptrRecv {\n\t\tfor r.Kind() == reflect.Ptr {\n\t\t\tr = r.Elem()\n\t\t}\n\t}\n\tif !ptrRecv || r.Kind() == reflect.Ptr {\n\t\tr = fixArg(r)\n\t}\n\treturn r\n}\n\n// hasPtrRecv returns true if the method declaration m has a pointer receiver.\n"}}, Benign: true},
		mutant{Name: "import-mark-set-before-the-package-is-located", Prop: "C16", File: "interp/src.go", Old: "\t// For relative import paths in the form \"./xxx\" or \"../xxx\", the initial\n", New: "\tif interp.rdir[importPath] {\n\t\treturn \"\", fmt.Errorf(\"import cycle not allowed\\n\\timports %s\", importPath)\n\t}\n\tinterp.rdir[importPath] = true\n\n\t// For relative import paths in the form \"./xxx\" or \"../xxx\", the initial\n", Also: [][3]string{{"interp/src.go", "\tif interp.rdir[importPath] {\n\t\treturn \"\", fmt.Errorf(\"import cycle not allowed\\n\\timports %s\", importPath)\n\t}\n\tinterp.rdir[importPath] = true\n\t// The package is not being imported any more", "\t// The package is not being imported any more"}}, Rule: "R16.9", Key: "importSrc/mark-removed-on-every-exit"},
	)
}

func init() {
	addMutants(
		// D111 reverted
		mutant{Name: "struct-literal-wraps-for-the-first-destination", Prop: "C01", File: "interp/run.go", Old: "\t\tif dest := n.anc.child[0]; n.findex == dest.findex && n.level == dest.level {\n\t\t\treturn dest.typ\n\t\t}\n", New: "\t\treturn n.anc.child[0].typ\n", Rule: "R01.35", Key: "destType/left-hand-side-type-only-when-built-there"},
	)
}

func init() {
	addMutants(
		// round-7 seed C02-2
		mutant{Name: "interface-result-cell-allocated-once", Prop: "C02", File: "interp/value.go", Old: "\t\treturn func(f *frame) reflect.Value {\n\t\t\td := value(f)\n\t\t\tv := reflect.New(t).Elem()\n\t\t\td.Set(reflect.ValueOf(valueInterface{n, v}))\n\t\t\treturn v\n\t\t}\n", New: "\t\tv := reflect.New(t).Elem()\n\t\tw := reflect.ValueOf(valueInterface{n, v})\n\t\treturn func(f *frame) reflect.Value {\n\t\t\tvalue(f).Set(w)\n\t\t\treturn v\n\t\t}\n", Rule: "R02.19", Key: "genValueOutput/closure#1/result-location-allocated-per-execution"},
	)
}

func init() {
	addMutants(
		// round-7 seeds on C12
		mutant{Name: "call-without-value-unpacked-as-no-argument", Prop: "C12", File: "interp/typecheck.go", Old: "\tif len(child) == 1 && isCall(child[0]) && child[0].child[0].typ.numOut() > 1 {\n", New: "\tif len(child) == 1 && isCall(child[0]) && child[0].child[0].typ.numOut() != 1 {\n", Rule: "R12.23", Key: "typecheck.unpackParams/unpacking#1/only-for-several-values"},
		mutant{Name: "function-values-comparable", Prop: "C12", File: "interp/type.go", Old: "func (t *itype) comparable() bool {\n", New: "func (t *itype) comparable() bool {\n\tswitch t.cat {\n\tcase ptrT, chanT, funcT:\n\t\treturn true\n\t}\n", Rule: "R12.25", Key: "itype.comparable/functions-slices-maps-never-comparable"},
		mutant{Name: "return-checked-against-a-remembered-function", Prop: "C12", File: "interp/cfg.go", Old: "\t\t\t\ttyp, err = nodeType(interp, sc.upperLevel(), returnSig.child[2].fieldType(i))\n\t\t\t\tif err != nil {\n\t\t\t\t\treturn\n\t\t\t\t}\n", New: "\t\t\t\ttyp = lastResults[i%len(lastResults)]\n", Also: [][3]string{{"interp/cfg.go", "\tvar initNodes []*node\n\tvar err error\n", "\tvar initNodes []*node\n\tvar err error\n\tlastResults := []*itype{nil}\n"}}, Rule: "R12.24", Key: "cfg/case:returnStmt/operand-check#2/result-types-of-the-current-function"},
	)
}

func init() {
	addMutants(
		// round-7 seeds on C01 and C02
		mutant{Name: "if-without-else-may-have-no-successor", Prop: "C01", File: "interp/cfg.go", Old: "\t\t\tn.start = init.start\n\t\t\tif cond.rval.IsValid() {\n\t\t\t\t// Condition is known at compile time, bypass test.\n\t\t\t\tif cond.rval.Bool() {\n\t\t\t\t\tinit.tnext = tbody.start\n\t\t\t\t} else {\n\t\t\t\t\tinit.tnext = n\n\t\t\t\t}\n\t\t\t} else {\n\t\t\t\tinit.tnext = cond.start\n\t\t\t\tcond.tnext = tbody.start\n\t\t\t}\n\t\t\ttbody.tnext = n\n\t\t\tsetFNext(cond, n)\n", New: "\t\t\tn.start = init.start\n\t\t\tvar next *node\n\t\t\tswitch {\n\t\t\tcase !cond.rval.IsValid():\n\t\t\t\tnext = cond.start\n\t\t\t\tcond.tnext = tbody.start\n\t\t\tcase cond.rval.Bool():\n\t\t\t\tnext = tbody.start\n\t\t\t}\n\t\t\tinit.tnext = next\n\t\t\ttbody.tnext = n\n\t\t\tsetFNext(cond, n)\n", Rule: "R01.36", Key: "Interpreter.cfg/next-stored-into-tnext/never-nil"},
		mutant{Name: "left-operand-computed-in-the-assigned-variable", Prop: "C02", File: "interp/cfg.go", Old: "\t\t\tdefault:\n\t\t\t\t// Allocate a new location in frame, and store the result here.\n\t\t\t\tn.findex = sc.add(n.typ)\n\t\t\t}\n\t\t\tif n.typ != nil && !n.typ.untyped {\n\t\t\t\tfixUntyped(n, sc)\n\t\t\t}\n", New: "\t\t\tcase n.anc.kind == binaryExpr && n.anc.child[0] == n && n.anc.anc.kind == assignStmt && n.anc.anc.nleft == 1 && n.anc.anc.child[0].typ != nil && n.typ != nil && n.anc.anc.child[0].typ.id() == n.typ.id():\n\t\t\t\tn.findex = n.anc.anc.child[0].findex\n\t\t\tdefault:\n\t\t\t\t// Allocate a new location in frame, and store the result here.\n\t\t\t\tn.findex = sc.add(n.typ)\n\t\t\t}\n\t\t\tif n.typ != nil && !n.typ.untyped {\n\t\t\t\tfixUntyped(n, sc)\n\t\t\t}\n", Rule: "R02.20", Key: "cfg/case:binaryExpr/result-location#4/own-or-direct-parent"},
	)
}

func init() {
	addMutants(
		// round-7 seeds on C03
		mutant{Name: "exact-check-skipped-for-small-operands", Prop: "C03", File: "interp/typecheck.go", Old: "\t\tv = constant.BinaryOp(x, tok, y)\n\t}\n", New: "\t\tif isInt(t) && 2*constant.BitLen(x) < t.Bits() && 2*constant.BitLen(y) < t.Bits() {\n\t\t\treturn nil\n\t\t}\n\t\tv = constant.BinaryOp(x, tok, y)\n\t}\n", Rule: "R03.17", Key: "typecheck.constExpr/acceptance#7/independent-of-the-operator"},
		mutant{Name: "shift-folder-answers-large-counts-itself", Prop: "C03", File: "interp/op.go", Old: "\t\tv := constant.Shift(vConstantValue(v0), token.SHR, uint(vUint(v1)))\n", New: "\t\tv := shiftOut(vConstantValue(v0), vUint(v1))\n", Also: [][3]string{{"interp/op.go", "func shrConst(n *node) {\n", "func shiftOut(x constant.Value, s uint64) constant.Value {\n\tif s >= uint64(constant.BitLen(x)) {\n\t\treturn constant.MakeInt64(0)\n\t}\n\treturn constant.Shift(x, token.SHR, uint(s))\n}\n\nfunc shrConst(n *node) {\n"}}, Rule: "R03.21", Key: "shrConst/exact-result-from-go-constant:shiftOut"},
	)
}

func init() {
	addMutants(
		// D112 reverted
		mutant{Name: "routine-read-from-the-ancestor-frame", Prop: "C19", File: "interp/debugger.go", Old: "\tf.debug.g = dbg.routineOf(f.anc)\n", New: "\tf.debug.g = f.anc.debug.g\n", Rule: "R19.15", Key: "Debugger.enterCall/ancestor-debug-data-not-assumed"},
	)
}

func init() {
	addMutants(
		// D113-D117 reverted
		mutant{Name: "untyped-nil-converted-to-a-basic-type", Prop: "C12", File: "interp/typecheck.go", Old: "\tcase isNumber(ttyp) || isString(ttyp) || isBoolean(ttyp):\n\t\tif n.typ.isNil() {\n\t\t\treturn convErr\n\t\t}\n", New: "\tcase isNumber(ttyp) || isString(ttyp) || isBoolean(ttyp):\n", Rule: "R12.26", Key: "typecheck.convertUntyped/case:isBoolean|isNumber|isString/untyped-nil-considered"},
		mutant{Name: "operand-conversion-errors-dropped-before-the-comparison", Prop: "C12", File: "interp/typecheck.go", Old: "\t\tif err0 != nil {\n\t\t\treturn err0\n\t\t}\n\t\tif err1 != nil {\n\t\t\treturn err1\n\t\t}\n\t\treturn check.comparison(n)\n", New: "\t\t_, _ = err0, err1\n\t\treturn check.comparison(n)\n", Rule: "R12.27", Key: "typecheck.binaryExpr/conversion#1/error-returned-before-the-comparison"},
		mutant{Name: "operand-conversion-errors-discarded", Prop: "C12", File: "interp/typecheck.go", Old: "\terr0 := check.convertUntyped(c0, c1.typ)\n\terr1 := check.convertUntyped(c1, c0.typ)\n", New: "\t_ = check.convertUntyped(c0, c1.typ)\n\t_ = check.convertUntyped(c1, c0.typ)\n", Also: [][3]string{{"interp/typecheck.go", "\t\tif err0 != nil {\n\t\t\treturn err0\n\t\t}\n\t\tif err1 != nil {\n\t\t\treturn err1\n\t\t}\n", ""}}, Rule: "R12.3", Key: "typecheck.binaryExpr/discard:typecheck.convertUntyped"},
		mutant{Name: "second-operand-conversion-error-not-tested", Prop: "C12", File: "interp/typecheck.go", Old: "\t\tif err1 != nil {\n\t\t\treturn err1\n\t\t}\n\t\treturn check.comparison(n)\n", New: "\t\t_ = err1\n\t\treturn check.comparison(n)\n", Rule: "R12.27", Key: "typecheck.binaryExpr/conversion#2/error-returned-before-the-comparison"},
		mutant{Name: "return-constant-not-checked-for-representability", Prop: "C12", File: "interp/cfg.go", Old: "\t\t\t\t} else if rt := typ.TypeOf(); c.typ.untyped && isNumber(rt) {\n\t\t\t\t\t// An untyped constant operand must be representable in the result type.\n\t\t\t\t\tif err = check.representable(c, rt); err != nil {\n\t\t\t\t\t\treturn\n\t\t\t\t\t}\n\t\t\t\t}\n", New: "\t\t\t\t}\n", Rule: "R12.28", Key: "cfg/case:returnStmt/constant-operands-representable"},
		mutant{Name: "non-function-callee-not-rejected", Prop: "C12", File: "interp/cfg.go", Old: "\t\t\t\tif c0.typ == nil || !isFunc(c0.typ) {\n\t\t\t\t\terr = c0.cfgErrorf(\"invalid operation: cannot call non-function %s\", c0.ident)\n\t\t\t\t\tbreak\n\t\t\t\t}\n", New: "", Rule: "R12.29", Key: "cfg/case:callExpr/default/callee-is-a-function"},
		mutant{Name: "multi-valued-source-of-a-single-assignment", Prop: "C12", File: "interp/cfg.go", Old: "\t\t\t\t\t\tif k := ft.numOut(); k != 1 {\n\t\t\t\t\t\t\terr = src.cfgErrorf(\"assignment mismatch: 1 variable but call returns %d values\", k)\n\t\t\t\t\t\t\tbreak\n\t\t\t\t\t\t}\n", New: "\t\t\t\t\t\t_ = ft\n", Rule: "R12.30", Key: "cfg/case:assignStmt/single-valued-source"},
		mutant{Name: "benign-callee-test-on-the-source-type", Prop: "C12", File: "interp/cfg.go", Old: "\t\t\t\tif c0.typ == nil || !isFunc(c0.typ) {\n", New: "\t\t\t\tif t := c0.typ; t == nil || !(isFuncSrc(t) || isFunc(t)) {\n", Benign: true},
		mutant{Name: "benign-nil-test-hoisted-in-the-case-condition", Prop: "C12", File: "interp/typecheck.go", Old: "\tcase isNumber(ttyp) || isString(ttyp) || isBoolean(ttyp):\n\t\tif n.typ.isNil() {\n\t\t\treturn convErr\n\t\t}\n", New: "\tcase n.typ.isNil() && (isNumber(ttyp) || isString(ttyp) || isBoolean(ttyp)):\n\t\treturn convErr\n\tcase isNumber(ttyp) || isString(ttyp) || isBoolean(ttyp):\n", Benign: true},
		mutant{Name: "benign-conversion-errors-returned-in-init-form", Prop: "C12", File: "interp/typecheck.go", Old: "\t\tif err0 != nil {\n\t\t\treturn err0\n\t\t}\n\t\tif err1 != nil {\n\t\t\treturn err1\n\t\t}\n\t\treturn check.comparison(n)\n", New: "\t\tif err0 != nil || err1 != nil {\n\t\t\tif err0 != nil {\n\t\t\t\treturn err0\n\t\t\t}\n\t\t\treturn err1\n\t\t}\n\t\treturn check.comparison(n)\n", Benign: true},
	)
}

func init() {
	addMutants(
		// D118-D120 reverted
		mutant{Name: "tagless-switch-conditions-not-checked-boolean", Prop: "C12", File: "interp/cfg.go", Old: "\t\t\t\t\t\t\tif !isBool(cond.typ) {\n\t\t\t\t\t\t\t\terr = cond.cfgErrorf(\"non-bool used as case condition\")\n\t\t\t\t\t\t\t\treturn\n\t\t\t\t\t\t\t}\n", New: "", Rule: "R12.5", Key: "cfg/case:switchIfStmt/cond-is-bool"},
		mutant{Name: "select-clauses-do-not-record-the-break-target", Prop: "C01", File: "interp/cfg.go", Old: "\t\t\tsc = sc.pushBloc()\n\t\t\tsc.loop = n.anc.anc // a break leaves the select statement\n\t\t\tdeclareLabels(sc, n)\n\t\t\tif len(n.child) > 0 && n.child[0].kind == defineStmt && n.child[0].action == aAssign {\n", New: "\t\t\tsc = sc.pushBloc()\n\t\t\tdeclareLabels(sc, n)\n\t\t\tif len(n.child) > 0 && n.child[0].kind == defineStmt && n.child[0].action == aAssign {\n", Rule: "R01.37", Key: "cfg/selectStmt/records-itself-as-the-target-of-break"},
		mutant{Name: "break-target-not-tested", Prop: "C12", File: "interp/cfg.go", Old: "\t\t\t\tif sc.loop == nil {\n\t\t\t\t\terr = n.cfgErrorf(\"break is not in a loop, switch, or select\")\n\t\t\t\t\tbreak\n\t\t\t\t}\n", New: "", Rule: "R12.31", Key: "cfg/case:breakStmt/target-tested"},
		mutant{Name: "continue-target-not-tested", Prop: "C01", File: "interp/cfg.go", Old: "\t\t\t\tif sc.loopRestart == nil {\n\t\t\t\t\terr = n.cfgErrorf(\"continue is not in a loop\")\n\t\t\t\t\tbreak\n\t\t\t\t}\n", New: "", Rule: "R01.37", Key: "cfg/case:continueStmt/target-tested"},
		mutant{Name: "loop-state-inherited-by-function-literals", Prop: "C12", File: "interp/scope.go", Old: "\tif !indirect {\n\t\tsc.loop, sc.loopRestart = s.loop, s.loopRestart\n\t}\n", New: "\tsc.loop, sc.loopRestart = s.loop, s.loopRestart\n", Rule: "R12.31", Key: "scope.push/loop-copy#1/not-across-functions"},
		mutant{Name: "benign-select-records-itself-with-its-own-scope", Prop: "C01", File: "interp/cfg.go", Old: "\t\t\tsc = sc.pushBloc()\n\t\t\tsc.loop = n.anc.anc // a break leaves the select statement\n\t\t\tdeclareLabels(sc, n)\n\t\t\tif len(n.child) > 0 && n.child[0].kind == defineStmt && n.child[0].action == aAssign {\n", New: "\t\t\tsc = sc.pushBloc()\n\t\t\tsel := n.anc.anc\n\t\t\tsc.loop = sel\n\t\t\tdeclareLabels(sc, n)\n\t\t\tif len(n.child) > 0 && n.child[0].kind == defineStmt && n.child[0].action == aAssign {\n", Benign: true},
	)
}

func init() {
	addMutants(
		// D121 reverted
		mutant{Name: "typed-constant-conversion-not-checked", Prop: "C12", File: "interp/typecheck.go", Old: "\t\t} else if !n.typ.untyped && isNumber(n.typ.TypeOf()) && isNumber(typ.TypeOf()) {\n\t\t\t// A typed numeric constant: its value must be representable in the target type.\n\t\t\tc = constantOf(n.rval)\n\t\t}\n", New: "\t\t}\n", Rule: "R12.32", Key: "typecheck.conversion/representability#1/typed-constants-included"},
		mutant{Name: "typed-constant-conversion-not-checked-c03", Prop: "C03", File: "interp/typecheck.go", Old: "\t\t} else if !n.typ.untyped && isNumber(n.typ.TypeOf()) && isNumber(typ.TypeOf()) {\n\t\t\t// A typed numeric constant: its value must be representable in the target type.\n\t\t\tc = constantOf(n.rval)\n\t\t}\n", New: "\t\t}\n", Rule: "R03.22", Key: "typecheck.conversion/representability#1/typed-constants-included"},
	)
}

func init() {
	addMutants(
		// D122 reverted
		mutant{Name: "negative-constant-index-accepted", Prop: "C12", File: "interp/typecheck.go", Old: "\tif !n.rval.IsValid() {\n\t\treturn nil\n\t}\n\n\tif vInt(n.rval) < 0 {\n\t\treturn n.cfgErrorf(\"invalid argument: index %d must not be negative\", vInt(n.rval))\n\t}\n\n\tif max < 1 {\n\t\treturn nil\n\t}\n", New: "\tif !n.rval.IsValid() || max < 1 {\n\t\treturn nil\n\t}\n", Rule: "R12.33", Key: "typecheck.index/constant-index-not-negative"},
		mutant{Name: "negative-index-test-after-the-unbounded-exit", Prop: "C12", File: "interp/typecheck.go", Old: "\tif vInt(n.rval) < 0 {\n\t\treturn n.cfgErrorf(\"invalid argument: index %d must not be negative\", vInt(n.rval))\n\t}\n\n\tif max < 1 {\n\t\treturn nil\n\t}\n", New: "\tif max < 1 {\n\t\treturn nil\n\t}\n\n\tif vInt(n.rval) < 0 {\n\t\treturn n.cfgErrorf(\"invalid argument: index %d must not be negative\", vInt(n.rval))\n\t}\n", Rule: "R12.33", Key: "typecheck.index/constant-index-not-negative"},
	)
}

func init() {
	addMutants(
		// D123 reverted, one sibling at a time
		mutant{Name: "string-element-assignable", Prop: "C12", File: "interp/cfg.go", Old: "\t\t\t\tif isStringElem(dest) {\n\t\t\t\t\terr = dest.cfgErrorf(\"cannot assign to an element of a string (strings are immutable)\")\n\t\t\t\t\tbreak\n\t\t\t\t}\n", New: "", Rule: "R12.34", Key: "cfg/case:assignStmt/string-element-not-a-destination"},
		mutant{Name: "string-element-incrementable", Prop: "C12", File: "interp/cfg.go", Old: "\t\t\tif isStringElem(n.child[0]) {\n\t\t\t\terr = n.cfgErrorf(\"cannot assign to an element of a string (strings are immutable)\")\n\t\t\t\tbreak\n\t\t\t}\n", New: "", Rule: "R12.34", Key: "cfg/case:incDecStmt/string-element-not-a-destination"},
	)
}

func init() {
	addMutants(
		// round-8 seeds (simplified)
		mutant{Name: "first-token-guessed-from-the-leading-word", Prop: "C11", File: "interp/ast.go", Old: "func (interp *Interpreter) firstToken(src string) token.Token {\n\tvar s scanner.Scanner\n", New: "func (interp *Interpreter) firstToken(src string) token.Token {\n\tif w := strings.TrimLeft(src, \" \\t\\r\\n\"); w != \"\" && w[0] >= 'a' && w[0] <= 'z' {\n\t\tfor _, tok := range [...]token.Token{token.PACKAGE, token.CONST, token.FUNC, token.IMPORT, token.TYPE, token.VAR} {\n\t\t\tif strings.HasPrefix(w, tok.String()) {\n\t\t\t\treturn tok\n\t\t\t}\n\t\t}\n\t\treturn token.IDENT\n\t}\n\tvar s scanner.Scanner\n", Rule: "R11.15", Key: "Interpreter.firstToken/token-delivered-by-the-scanner"},
		mutant{Name: "benign-first-token-scanner-in-a-local", Prop: "C11", File: "interp/ast.go", Old: "\t_, tok, _ := s.Scan()\n\treturn tok\n}\n\nfunc ignoreError", New: "\t_, first, _ := s.Scan()\n\treturn first\n}\n\nfunc ignoreError", Benign: true},
		mutant{Name: "function-bodies-followed-only-for-initialisers-with-a-call", Prop: "C15", File: "interp/cfg.go", Old: "\t\t\tcase sym.kind == funcSym && sym.node != nil && sym.node.kind == funcDecl && !seen[sym.node]:\n", New: "\t\t\tcase calls && sym.kind == funcSym && sym.node != nil && sym.node.kind == funcDecl && !seen[sym.node]:\n", Also: [][3]string{{"interp/cfg.go", "func getVarDependencies(nod *node, sc *scope) (deps []*node) {\n", "func getVarDependencies(nod *node, sc *scope) (deps []*node) {\n\tcalls := false\n\tnod.Walk(func(n *node) bool {\n\t\tcalls = calls || n.kind == callExpr\n\t\treturn !calls\n\t}, nil)\n"}}, Rule: "R15.16", Key: "getVarDependencies/descent#3/whatever-the-shape-of-the-initialiser"},
	)
}

func init() {
	addMutants(
		// round-8 seeds (simplified), second batch
		mutant{Name: "symbols-result-remembered-per-import-path", Prop: "C07", File: "interp/use.go", Old: "func (interp *Interpreter) Symbols(importPath string) Exports {\n\tm := map[string]map[string]reflect.Value{}\n\tinterp.mutex.RLock()\n\tdefer interp.mutex.RUnlock()\n", New: "func (interp *Interpreter) Symbols(importPath string) Exports {\n\tinterp.mutex.Lock()\n\tdefer interp.mutex.Unlock()\n\tif interp.symbols == nil {\n\t\tinterp.symbols = map[string]Exports{}\n\t}\n\tif r, ok := interp.symbols[importPath]; ok {\n\t\treturn r\n\t}\n\tm := map[string]map[string]reflect.Value{}\n\tinterp.symbols[importPath] = m\n", Also: [][3]string{{"interp/interp.go", "\troots    []*node\n", "\troots    []*node\n\tsymbols  map[string]Exports\n"}}, Rule: "R07.22", Key: "Interpreter.Symbols/computed-from-the-current-tables-at-each-call"},
		mutant{Name: "receiver-offset-lost-in-one-variadic-test", Prop: "C07", File: "interp/run.go", Old: "\t\t\tif variadic >= 0 && i+rcvrOffset >= variadic {\n\t\t\t\tdefType = funcType.In(variadic)\n", New: "\t\t\tif variadic >= 0 && i >= variadic {\n\t\t\t\tdefType = funcType.In(variadic)\n", Rule: "R07.23", Key: "callBin/variadic-test#2/position-in-the-parameter-list"},
		mutant{Name: "benign-variadic-position-in-a-local", Prop: "C07", File: "interp/run.go", Old: "\t\t\tif variadic >= 0 && i+rcvrOffset >= variadic {\n\t\t\t\tdefType = funcType.In(variadic)\n", New: "\t\t\tpos := rcvrOffset + i\n\t\t\tif variadic >= 0 && pos >= variadic {\n\t\t\t\tdefType = funcType.In(variadic)\n", Benign: true},
		mutant{Name: "literal-called-in-place-shares-the-live-frame", Prop: "C08", File: "interp/run.go", Old: "\tn.exec = func(f *frame) bltn {\n\t\tfr := f.clone()\n\n\t\tfct := reflect.MakeFunc(n.typ.TypeOf(), func(in []reflect.Value) []reflect.Value {\n", New: "\tinPlace := n.anc != nil && n.anc.kind == callExpr && n.anc.child[0] == n && n.anc.anc != nil && n.anc.anc.kind != deferStmt\n\tn.exec = func(f *frame) bltn {\n\t\tfr := f\n\t\tif !inPlace {\n\t\t\tfr = f.clone()\n\t\t}\n\n\t\tfct := reflect.MakeFunc(n.typ.TypeOf(), func(in []reflect.Value) []reflect.Value {\n", Rule: "R08.14", Key: "getFunc/closure-frame-is-a-clone"},
		mutant{Name: "excluded-files-remembered-by-name", Prop: "C17", File: "interp/ast.go", Old: "\tif ok, err := interp.buildOk(&interp.context, name, src); !ok || err != nil {\n\t\treturn nil, err // skip source not matching build constraints\n\t}\n", New: "\tif !inc && interp.excluded[name] {\n\t\treturn nil, nil\n\t}\n\tif ok, err := interp.buildOk(&interp.context, name, src); !ok || err != nil {\n\t\tif err == nil && !inc {\n\t\t\tif interp.excluded == nil {\n\t\t\t\tinterp.excluded = map[string]bool{}\n\t\t\t}\n\t\t\tinterp.excluded[name] = true\n\t\t}\n\t\treturn nil, err // skip source not matching build constraints\n\t}\n", Also: [][3]string{{"interp/interp.go", "\troots    []*node\n", "\troots    []*node\n\texcluded map[string]bool\n"}}, Rule: "R17.15", Key: "Interpreter.parse/buildOk#1/verdict-not-remembered"},
		mutant{Name: "constant-imports-registered-for-every-untyped-constant", Prop: "C18", File: "extract/extract.go", Old: "\tdefault:\n\t\treturn name\n\t}\n\n\timports[\"go/constant\"] = true\n\timports[\"go/token\"] = true\n\n\treturn fmt.Sprintf(", New: "\tdefault:\n\t\timports[\"go/constant\"] = true\n\t\timports[\"go/token\"] = true\n\t\treturn name\n\t}\n\n\timports[\"go/constant\"] = true\n\timports[\"go/token\"] = true\n\n\treturn fmt.Sprintf(", Rule: "R18.12", Key: "fixConst/import:go/constant#3/registered-where-it-is-used"},
	)
}

func init() {
	addMutants(
		// D124 reverted, one spelling at a time
		mutant{Name: "alignof-misspelt-in-the-selector-case", Prop: "C03", File: "interp/cfg.go", Old: "name == \"Alignof\" || name == \"Offsetof\"", New: "name == \"AlignOf\" || name == \"Offsetof\"", Rule: "R03.23", Key: "package/unsafe-builtin-names-agree"},
		mutant{Name: "alignof-misspelt-in-the-builtin-case", Prop: "C03", File: "interp/cfg.go", Old: "case \"unsafe.Alignof\", \"unsafe.Offsetof\", \"unsafe.Sizeof\":", New: "case \"unsafe.alignOf\", \"unsafe.Offsetof\", \"unsafe.Sizeof\":", Rule: "R03.23", Key: "package/unsafe-builtin-names-agree"},
	)
}

func init() {
	addMutants(
		// D125 reverted
		mutant{Name: "range-over-channels-taken-for-a-range-over-a-channel", Prop: "C01", File: "interp/scope.go", Old: "\tif len(n.child) != 3 {\n\t\t// The range over a channel has one iteration variable at most: in the form\n\t\t// with a key and a value, child[1] is the value variable, not the ranged expression.\n\t\treturn nil\n\t}\n\tif sym, _, found := s.lookup(n.child[1].ident); found {\n\t\tif t := sym.typ; t != nil && (t.cat == chanT || t.cat == chanRecvT) {\n", New: "\tif sym, _, found := s.lookup(n.child[1].ident); found {\n\t\tif t := sym.typ; len(n.child) == 3 && t != nil && (t.cat == chanT || t.cat == chanRecvT) {\n", Rule: "R01.38", Key: "scope.rangeChanType/return#2/only-for-the-form-without-key"},
	)
}

func init() {
	addMutants(
		// D126 reverted
		mutant{Name: "panic-value-left-in-the-frame-it-leaves", Prop: "C06", File: "interp/run.go", Old: "\t\t\tr := f.recovered\n\t\t\tf.recovered = nil\n\t\t\tf.mutex.Unlock()\n\t\t\tpanic(r)\n", New: "\t\t\tf.mutex.Unlock()\n\t\t\tpanic(f.recovered)\n", Rule: "R06.18", Key: "runCfg/re-panic#1/value-not-left-in-the-frame"},
	)
}

func init() {
	addMutants(
		// D127, D128 reverted
		mutant{Name: "select-assignment-declares-a-clause-variable", Prop: "C01", File: "interp/cfg.go", Old: "\t\t\tif len(n.child) > 0 && n.child[0].kind == defineStmt && n.child[0].action == aAssign {\n", New: "\t\t\tif len(n.child) > 0 && n.child[0].action == aAssign {\n", Rule: "R01.39", Key: "cfg/case:commClause/declaration#1/only-for-a-short-declaration"},
		mutant{Name: "select-clause-form-without-direction", Prop: "C01", File: "interp/run.go", Old: "\t\tdefault:\n\t\t\t// The comm clause has an empty body clause after a channel receive with assignment.\n\t\t\tchans[i], assigned[i], ok[i], cases[i].Dir = clauseChanDir(c0)\n\t\t\tchanValues[i] = genValue(chans[i])\n\t\t\tif assigned[i] != nil {\n\t\t\t\tassignedValues[i] = genValue(assigned[i])\n\t\t\t}\n\t\t\tif ok[i] != nil {\n\t\t\t\tokValues[i] = genValue(ok[i])\n\t\t\t}\n\t\t\tclause[i] = func(*frame) bltn { return next }\n", New: "", Rule: "R01.40", Key: "_select/clause-forms/every-form-has-a-direction"},
	)
}

func init() {
	addMutants(
		// D129, D130 reverted
		mutant{Name: "select-send-value-not-converted", Prop: "C08", File: "interp/run.go", Old: "\t\t\tcases[i].Dir = reflect.SelectSend\n\t\t\tassignedValues[i] = genSendValue(c0.child[0], c0.child[1])\n", New: "\t\t\tcases[i].Dir = reflect.SelectSend\n\t\t\tassignedValues[i] = genValue(c0.child[1])\n", Rule: "R08.16", Key: "_select/send-value#2/converted-as-in-a-send-statement"},
		mutant{Name: "iota-not-reset-when-a-declaration-starts-gta", Prop: "C03", File: "interp/gta.go", Old: "\t\t\t// The specifications are numbered from zero, whatever the early parse has left.\n\t\t\tsc.iota = 0\n", New: "", Rule: "R03.24", Key: "Interpreter.gta/case:constDecl/specifications-numbered-from-zero"},
		mutant{Name: "iota-reset-before-the-early-compilation-only", Prop: "C03", File: "interp/cfg.go", Old: "\t\t\t// The specifications are numbered from zero, whatever an earlier declaration\n\t\t\t// (or the early parse above) which failed has left.\n\t\t\tsc.iota = 0\n", New: "", Rule: "R03.24", Key: "Interpreter.cfg/case:constDecl/specifications-numbered-from-zero"},
	)
}

func init() {
	addMutants(
		// D131, D132 reverted
		mutant{Name: "blank-identifiers-share-one-location", Prop: "C01", File: "interp/cfg.go", Old: "\t\t\t\t\tif dest.ident == \"_\" && !sc.global {\n\t\t\t\t\t\t// Each assignment to the blank identifier has a location of its own: the\n\t\t\t\t\t\t// values discarded in one scope need not be of the same type.\n\t\t\t\t\t\tsym = nil\n\t\t\t\t\t} else if sc.global || sc.isRedeclared(dest) {\n", New: "\t\t\t\t\tif sc.global || sc.isRedeclared(dest) {\n", Rule: "R01.41", Key: "cfg/case:assignStmt/symbol-reuse#1/not-for-the-blank-identifier"},
		mutant{Name: "virtual-environment-read-without-the-lock", Prop: "C08", File: "interp/use.go", Old: "\t\t\tgetenv := func(key string) string {\n\t\t\t\tinterp.envMu.RLock()\n\t\t\t\tdefer interp.envMu.RUnlock()\n\t\t\t\treturn interp.env[key]\n\t\t\t}\n", New: "\t\t\tgetenv := func(key string) string { return interp.env[key] }\n", Rule: "R08.3", Key: "guarded/fixStdlib/opt.env/read"},
		mutant{Name: "virtual-environment-written-under-the-read-lock", Prop: "C08", File: "interp/use.go", Old: "\t\t\t\tinterp.envMu.Lock()\n\t\t\t\tdefer interp.envMu.Unlock()\n\t\t\t\tinterp.env[key] = value\n", New: "\t\t\t\tinterp.envMu.RLock()\n\t\t\t\tdefer interp.envMu.RUnlock()\n\t\t\t\tinterp.env[key] = value\n", Rule: "R08.3", Key: "guarded/fixStdlib/opt.env/write#2"},
	)
}

func init() {
	addMutants(
		// D133 reverted, in parts
		mutant{Name: "unix-tag-unknown-again", Prop: "C17", File: "interp/build.go", Old: "\tcase s == \"unix\" && unixOS[ctx.GOOS]:\n\t\tr = true\n", New: "", Rule: "R17.2", Key: "tag/unix"},
		mutant{Name: "unix-systems-table-incomplete", Prop: "C17", File: "interp/build.go", Old: "\t\"hurd\":      true,\n\t\"illumos\":   true,\n\t\"ios\":       true,\n\t\"linux\":     true,\n", New: "\t\"illumos\":   true,\n\t\"ios\":       true,\n\t\"linux\":     true,\n", Rule: "R17.2", Key: "tag/unix/systems"},
		mutant{Name: "implied-os-tags-unknown-again", Prop: "C17", File: "interp/build.go", Old: "\tcase s != \"\" && impliedOS[ctx.GOOS] == s:\n\t\t// The OS tag which is also satisfied for this GOOS, as in go/build.\n\t\tr = true\n", New: "", Rule: "R17.2", Key: "implied/android=>linux"},
	)
}

func init() {
	addMutants(
		// D134 reverted
		mutant{Name: "gobuild-line-ignored-again", Prop: "C17", File: "interp/build.go", Old: "\t// A //go:build line, if any, is the constraint of the file: the // +build lines are then ignored,\n\t// as in go/build.\n\tfor _, g := range f.Comments {\n\t\tfor _, c := range g.List {\n\t\t\tif !constraint.IsGoBuild(c.Text) {\n\t\t\t\tcontinue\n\t\t\t}\n\t\t\texpr, err := constraint.Parse(c.Text)\n\t\t\tif err != nil {\n\t\t\t\treturn false, err\n\t\t\t}\n\t\t\tif !expr.Eval(func(tag string) bool { return buildTagOk(ctx, tag) }) {\n\t\t\t\treturn false, nil\n\t\t\t}\n\t\t\tsetYaegiTags(ctx, f.Comments)\n\t\t\treturn true, nil\n\t\t}\n\t}\n", New: "", Also: [][3]string{{"interp/build.go", "\t\"go/build/constraint\"\n", ""}}, Rule: "R17.3", Key: "gobuild-lines"},
	)
}

func init() {
	addMutants(
		// D135-D138 reverted
		mutant{Name: "binary-result-stored-at-the-blank-identifier", Prop: "C02", File: "interp/cfg.go", Old: "n.anc.nleft == 1 && !isBlank(n.anc.child[childPos(n)-n.anc.nright]):", New: "n.anc.nleft == 1:", Rule: "R02.21", Key: "cfg/case:binaryExpr/direct-store-shortcut/not-for-the-blank-identifier"},
		mutant{Name: "unary-shortcut-tests-the-interface-only", Prop: "C02", File: "interp/cfg.go", Old: "n.anc.nright == 1 && directDest(n.anc.child[childPos(n)-n.anc.nright]):", New: "n.anc.nright == 1 && n.anc.child[childPos(n)-n.anc.nright].typ != nil && !isInterface(n.anc.child[childPos(n)-n.anc.nright].typ):", Rule: "R02.21", Key: "cfg/case:unaryExpr/direct-store-shortcut/not-for-the-blank-identifier"},
		mutant{Name: "unary-helper-forgets-the-interface", Prop: "C02", File: "interp/cfg.go", Old: "\treturn !isBlank(dest) && dest.typ != nil && !isInterface(dest.typ)\n", New: "\treturn !isBlank(dest) && dest.typ != nil\n", Rule: "R02.10", Key: "cfg/case:unaryExpr/retyped-to-destination#1/not-an-interface"},
		mutant{Name: "destination-form-not-checked-in-assignments", Prop: "C12", File: "interp/cfg.go", Old: "\t\t\t\tif !isDestExpr(dest) {\n\t\t\t\t\terr = dest.cfgErrorf(\"cannot assign to this expression (neither addressable nor a map index expression)\")\n\t\t\t\t\tbreak\n\t\t\t\t}\n", New: "", Rule: "R12.35", Key: "cfg/case:assignStmt/destination-form-checked"},
		mutant{Name: "call-accepted-as-a-destination", Prop: "C12", File: "interp/cfg.go", Old: "\tcase identExpr, indexExpr, selectorExpr, starExpr:\n\t\treturn true\n\tcase parenExpr:\n\t\treturn len(n.child) == 1 && isDestExpr(n.child[0])\n", New: "\tcase identExpr, indexExpr, selectorExpr, starExpr, callExpr:\n\t\treturn true\n\tcase parenExpr:\n\t\treturn len(n.child) == 1 && isDestExpr(n.child[0])\n", Rule: "R12.35", Key: "isDestExpr/forms"},
		mutant{Name: "forwarded-return-values-not-checked", Prop: "C12", File: "interp/cfg.go", Old: "\t\t\t\t\tif rt := ft.out(i); rt != nil && !rt.assignableTo(typ) {\n", New: "\t\t\t\t\tif rt := ft.out(i); rt != nil && typ == nil {\n", Rule: "R12.36", Key: "cfg/case:returnStmt/forwarded-values-checked-one-by-one"},
	)
}

func init() {
	addMutants(
		// D139 reverted
		mutant{Name: "literal-built-in-place-of-an-error-variable", Prop: "C05", File: "interp/cfg.go", Old: "\t\t\t\t\tif isInterfaceBin(dest.typ) {\n", New: "\t\t\t\t\tif dest.typ.cat == valueT && dest.typ.rtype.Kind() == reflect.Interface {\n", Rule: "R05.19", Key: "cfg/case:assignStmt/literal-in-place#1/not-for-compiled-interfaces-nor-error"},
		mutant{Name: "benign-literal-skip-spelt-out", Prop: "C05", File: "interp/cfg.go", Old: "\t\t\t\t\tif isInterfaceBin(dest.typ) {\n", New: "\t\t\t\t\tif dest.typ.cat == errorT || dest.typ.cat == valueT && dest.typ.rtype.Kind() == reflect.Interface {\n", Benign: true},
	)
}

func init() {
	addMutants(
		// D140 reverted
		mutant{Name: "nil-interface-value-looked-into", Prop: "C05", File: "interp/run.go", Old: "\t\t\tif ok && v.node == nil {\n\t\t\t\t// The zero valueInterface is the nil value of an interface type.\n\t\t\t\tok = false\n\t\t\t}\n", New: "", Rule: "R05.20", Key: "typeAssert/asserted-value#1/nil-node-tested-before-use"},
	)
}

func init() {
	addMutants(
		// D141 reverted
		mutant{Name: "fields-promoted-through-named-fields", Prop: "C05", File: "interp/type.go", Old: "\t\t\t\tif tias && !f.embed {\n\t\t\t\t\t// Only the fields of an embedded field are promoted.\n\t\t\t\t\tcontinue\n\t\t\t\t}\n", New: "", Rule: "R05.21", Key: "itype.lookupField/field-loop#1/only-embedded-fields-promote"},
	)
}

func init() {
	addMutants(
		// D142 reverted (one comparison)
		mutant{Name: "method-depth-compared-with-the-path-length", Prop: "C05", File: "interp/cfg.go", Old: "\t\t\t\t\t\tif d >= 0 && d < len(ti)-1 {\n\t\t\t\t\t\t\tgoto tryMethods\n\t\t\t\t\t\t}\n\t\t\t\t\t\tif d == len(ti)-1 {\n", New: "\t\t\t\t\t\tif d >= 0 && d < len(ti) {\n\t\t\t\t\t\t\tgoto tryMethods\n\t\t\t\t\t\t}\n\t\t\t\t\t\tif d == len(ti) {\n", Rule: "R05.22", Key: "cfg/selector/method-vs-field-depth#1/same-unit"},
	)
}

func init() {
	addMutants(
		// D143 reverted
		mutant{Name: "float-variable-divided-by-zero-rejected", Prop: "C02", File: "interp/typecheck.go", Old: "\t\tif zeroConst(c1) && (c0.rval.IsValid() || c0.typ != nil && isInt(c0.typ.TypeOf())) {\n", New: "\t\tif zeroConst(c1) {\n", Rule: "R02.22", Key: "typecheck.binaryExpr/case:aQuo/zero-divisor#1/only-for-constant-or-integer-dividends"},
	)
}

func init() {
	addMutants(
		// D144 reverted
		mutant{Name: "redeclared-variable-retyped", Prop: "C01", File: "interp/cfg.go", Old: "\t\t\t\t\t\t\t\t\tdest.typ = sym.typ\n", New: "", Rule: "R01.42", Key: "cfg/case:assignStmt/redeclared#1/keeps-its-type"},
		mutant{Name: "redeclared-variable-source-not-checked", Prop: "C12", File: "interp/cfg.go", Old: "\t\t\t\t\t\t\t\t\tif !src.typ.assignableTo(sym.typ) {\n\t\t\t\t\t\t\t\t\t\terr = src.cfgErrorf(\"cannot use type %s as type %s in assignment\", src.typ.id(), sym.typ.id())\n\t\t\t\t\t\t\t\t\t\treturn\n\t\t\t\t\t\t\t\t\t}\n", New: "", Rule: "R12.37", Key: "cfg/case:assignStmt/redeclared#1/keeps-its-type"},
	)
}

func init() {
	addMutants(
		// D145 reverted
		mutant{Name: "map-element-addressable-again", Prop: "C12", File: "interp/typecheck.go", Old: "\t\t\tif c0.kind == indexExpr && isMap(c.typ) {\n\t\t\t\treturn n.cfgErrorf(\"invalid operation: cannot take address of a map element\")\n\t\t\t}\n", New: "\t\t\tif isMap(c.typ) {\n\t\t\t\tc0 = c\n\t\t\t\tfound = true\n\t\t\t\tcontinue\n\t\t\t}\n", Rule: "R12.38", Key: "typecheck.addressExpr/case:indexExpr/map-element-not-addressable"},
	)
}

func init() {
	addMutants(
		// D146 reverted
		mutant{Name: "constant-quotient-accepted-before-the-type-agreement", Prop: "C03", File: "interp/typecheck.go", Old: "\t\t\tif !c0.typ.untyped && !c1.typ.untyped && !c0.typ.equals(c1.typ) {\n\t\t\t\treturn n.cfgErrorf(\"invalid operation: mismatched types %s and %s\", c0.typ.id(), c1.typ.id())\n\t\t\t}\n\t\t\treturn nil\n", New: "\t\t\treturn nil\n", Rule: "R03.25", Key: "typecheck.binaryExpr/early-acceptance#1/operand-types-agree"},
	)
}
