package main

import (
	"fmt"
	"go/ast"
	"go/token"
	"go/types"
	"strings"

	"golang.org/x/tools/go/cfg"
	"golang.org/x/tools/go/ssa"
)

func init() {
	register("C10", &propMeta{
		Level: "other",
		Explanation: "Two structural clauses about run ids surviving a cancellation: R10.1 in Execute the root frame's id is refreshed from the interpreter's current id before any run on every path (go/cfg dominance); " +
			"R10.2 every callback handed to reflect.MakeFunc (the code a host, or a stored closure, re-enters later) gates its new frame on the interpreter's current run id and not on the id of a frame captured when the callback was created (SSA provenance of the id operand of newFrame). " +
			"Nothing else about the state after a cancellation is decided.",
		Assumptions: []string{"stop() only ever advances Interpreter.id (checked by C09/R09.5)"},
		Run:         runC10,
	})
	ruleText["R10.1"] = "in every function that calls (*Interpreter).run (Execute, importSrc), interp.frame.setrunid(interp.runid()) dominates every such call"
	ruleText["R10.3"] = "every reflect.Select in a run-time closure has a case loaded, at execution time, from frame.done of the frame it runs in (never a cancellation case cached in per-statement state by an earlier evaluation)"
	ruleText["R10.4"] = "the exported context-taking entry points write the same set of Interpreter fields (directly or through unexported helpers) before starting the evaluation goroutine: the cancellation state is renewed identically by all of them"
	ruleText["R10.5"] = "same analysis as C08/R08.3: every Lock/RLock of a mutex is released on every control-flow path to a function exit; an entry point that gives up early (expired context) with the interpreter's mutex held blocks every later evaluation"
	ruleText["R10.6"] = "= R06.2 (consumer side) shared: the unwinding function of runCfg runs the deferred records of every frame, cancelled or not - the list it consumes is frame.deferred, assigned once"
	ruleText["R10.2"] = "in a function literal passed to reflect.MakeFunc, the id passed to newFrame is not the runid() of a frame captured at creation time (a free variable): such an id is frozen while stop() advances the interpreter's id forever"
}

func runC10(c *Config, r *Report) {
	ic, err := loadInterp(c, true)
	if err != nil {
		r.Errorf("%v", err)
		return
	}
	// R10.1: every function that starts execution on the root frame refreshes its id first.
	frameFld := ic.field("Interpreter", "frame")
	// helpers that refresh the root frame id on every path to their exit count as a refresh
	alwaysRefresh := map[*types.Func]bool{}
	for _, name := range sortedKeys(ic.F) {
		fi := ic.F[name]
		if fi.Decl.Body == nil || fi.Obj == nil {
			continue
		}
		rf := findRefresh(ic, fi.Decl.Body, frameFld, nil)
		if rf == nil {
			continue
		}
		fg := buildFlow(fi.Decl.Body, ic.Info)
		if len(fg.G.Blocks) == 0 {
			continue
		}
		// no path from the entry to an exit avoiding the refresh
		entry := fi.Decl.Body.Lbrace
		_ = entry
		if !exitWithoutFromEntry(fg, func(n ast.Node) bool { return containsNode(n, rf) }) {
			alwaysRefresh[fi.Obj] = true
		}
	}
	starters := 0
	for _, name := range sortedKeys(ic.F) {
		ex := ic.F[name]
		if ex.Decl.Body == nil || name == "Interpreter.run" {
			continue
		}
		runs := callsIn(ic.Info, ex.Decl.Body, false, "interp.Interpreter.run")
		if len(runs) == 0 {
			continue
		}
		starters++
		refresh := findRefresh(ic, ex.Decl.Body, frameFld, alwaysRefresh)
		key := name + "/refresh"
		if refresh == nil {
			r.Fail("R10.1", key, ic.pos(ex.Decl.Pos()), name+" runs code on the root frame but never refreshes the root frame's run id from the interpreter's current id: after one cancelled evaluation the package-level code it runs is silently skipped")
			continue
		}
		fg := buildFlow(ex.Decl.Body, ic.Info)
		all := true
		for _, rc := range runs {
			if d, ok := fg.dominates(refresh, rc); !ok || !d {
				all = false
				r.Fail("R10.1", key, ic.pos(rc.Pos()), "this run is not dominated by interp.frame.setrunid(interp.runid()): after a cancelled evaluation the root frame keeps a stale id and the run does nothing")
			}
		}
		if all {
			r.Pass("R10.1", key, ic.pos(refresh.Pos()), "root frame id refreshed before every run")
		}
	}
	if starters < 2 {
		r.Errorf("R10.1: %d functions calling (*Interpreter).run found; Execute and importSrc are expected", starters)
	}
	// R10.3: blocking operations use the done case of the frame they run in.
	c10R3(ic, r)
	watcherPreparation(ic, r, "R10.4")
	// R10.5: no path leaves a mutex locked (an entry point returning early on an expired context
	// with interp.mutex held blocks every later evaluation): the analysis of C08/R08.3
	lockPairing(ic, r, "R10.5")
	c10R2(ic, r, "R10.2")
	// R10.6: = R06.2 on the consumer of the deferred records: a cancelled frame unwinds like any
	// other, its deferred compiled calls (mu.Unlock, wg.Done, close) release what earlier
	// definitions share with it.
	{
		sub := newReport("C06")
		c06R2(ic, sub)
		n := 0
		for _, o := range sub.Obls {
			if strings.Contains(o.Key, "/consumer/") {
				o.Rule = "R10.6"
				if !o.OK {
					o.Detail += "; a function cancelled while it holds a lock released by a deferred Unlock leaves it held, and every earlier definition using that lock blocks for ever"
				}
				r.add(o)
				n++
			}
		}
		r.Errors = append(r.Errors, sub.Errors...)
		if n == 0 {
			r.Errorf("R10.6: the consumer of the deferred records was not found")
		}
	}
}

// c10R2: see ruleText["R10.2"]; shared with C07.
func c10R2(ic *IC, r *Report, rule string) {
	g := buildSGraph(ic.SP)
	newFrame := ic.ssaFunc("newFrame")
	if newFrame == nil {
		r.Errorf("anchor not resolved: newFrame")
		return
	}
	seen := map[*ssa.Function]bool{}
	n := 0
	for _, cb := range g.MakeFuncRoots {
		if seen[cb] {
			continue
		}
		seen[cb] = true
		root := cb
		for root.Parent() != nil {
			root = root.Parent()
		}
		for _, b := range cb.Blocks {
			for _, ins := range b.Instrs {
				call, ok := ins.(*ssa.Call)
				if !ok || call.Call.StaticCallee() != newFrame {
					continue
				}
				n++
				base := ssaFuncName(root) + "/makefunc-frame-id"
				id := call.Call.Args[2]
				bad := false
				for _, o := range origins(id, map[ssa.Value]bool{}) {
					switch x := o.(type) {
					case *ssa.Call:
						if staticCalleeName(&x.Call) == "interp.(*frame).runid" {
							for _, ro := range origins(x.Call.Args[0], map[ssa.Value]bool{}) {
								if isCaptured(ro) {
									bad = true
									r.Fail(rule, base+":runid-of-captured-frame:"+capturedName(ro), ic.pos(call.Pos()),
										"the callback created by "+ssaFuncName(root)+" passes to newFrame the run id of "+describeValue(ro)+", a frame captured when the callback was created: after any later cancellation (stop advances the interpreter id) the function runs no statement and returns zero values")
								}
							}
						}
					default:
						if isCaptured(o) {
							bad = true
							r.Fail(rule, base+":captured-id-value:"+capturedName(o), ic.pos(call.Pos()),
								"the callback created by "+ssaFuncName(root)+" passes to newFrame an id read from "+describeValue(o)+", a value fixed when the callback was created: it is never refreshed, so after the first cancellation the function is dead for good, even after later successful evaluations")
						}
					}
				}
				if !bad {
					r.Pass(rule, base, ic.pos(call.Pos()), "the callback gates on a run id read when it is entered")
				}
			}
		}
	}
	if n < 2 {
		r.Errorf("R10.2: %d newFrame calls found inside reflect.MakeFunc callbacks; the closure and named-function wrappers are expected", n)
	}
}

// isCaptured reports whether v is (a load of) a free variable of the enclosing closure.
func isCaptured(v ssa.Value) bool {
	switch x := v.(type) {
	case *ssa.FreeVar:
		return true
	case *ssa.UnOp:
		return isCaptured(x.X)
	}
	return false
}

var _ = strings.TrimSpace
var _ types.Type

func capturedName(v ssa.Value) string {
	switch x := v.(type) {
	case *ssa.FreeVar:
		return x.Name()
	case *ssa.UnOp:
		return capturedName(x.X)
	}
	return "?"
}

// findRefresh returns the node performing interp.frame.setrunid(interp.runid()) in body,
// directly or by calling a helper that always performs it.
func findRefresh(ic *IC, body *ast.BlockStmt, frameFld *types.Var, helpers map[*types.Func]bool) ast.Node {
	var refresh ast.Node
	ast.Inspect(body, func(n ast.Node) bool {
		c, ok := n.(*ast.CallExpr)
		if !ok || refresh != nil {
			return true
		}
		if f, ok := calleeOf(ic.Info, c).(*types.Func); ok && helpers[f] {
			refresh = c
			return true
		}
		if !isCallTo(ic.Info, c, "interp.frame.setrunid") || len(c.Args) != 1 {
			return true
		}
		se := unparen(c.Fun).(*ast.SelectorExpr)
		if selField(ic.Info, se.X) != frameFld {
			return true
		}
		if a, ok := unparen(c.Args[0]).(*ast.CallExpr); ok && isCallTo(ic.Info, a, "interp.Interpreter.runid") {
			refresh = c
		}
		return true
	})
	return refresh
}

func containsNode(outer, inner ast.Node) bool {
	return outer.Pos() <= inner.Pos() && inner.End() <= outer.End()
}

// exitWithoutFromEntry reports whether some path from the function entry reaches an exit
// without executing a node accepted by via.
func exitWithoutFromEntry(fg *FlowGraph, via func(ast.Node) bool) bool {
	if len(fg.G.Blocks) == 0 {
		return true
	}
	seen := map[*cfg.Block]bool{}
	var walk func(b *cfg.Block) bool
	walk = func(b *cfg.Block) bool {
		if seen[b] {
			return false
		}
		seen[b] = true
		for _, n := range b.Nodes {
			if via(n) {
				return false
			}
		}
		if len(b.Succs) == 0 {
			if len(b.Nodes) > 0 {
				if es, ok := b.Nodes[len(b.Nodes)-1].(*ast.ExprStmt); ok {
					if call, ok := es.X.(*ast.CallExpr); ok && noReturn(fg.Info, call) {
						return false
					}
				}
			}
			return true
		}
		for _, s := range b.Succs {
			if walk(s) {
				return true
			}
		}
		return false
	}
	return walk(fg.G.Blocks[0])
}

// c10R3: every reflect.Select of a run-time closure takes its cancellation case from the
// frame it executes in (loaded at each execution). A done case cached in per-statement
// state belongs to the evaluation that first ran the statement: once that evaluation has
// been cancelled the channel is closed for good and the definition returns at once.
func c10R3(ic *IC, r *Report) {
	doneFld := ic.field("frame", "done")
	if doneFld == nil {
		r.Errorf("anchor not resolved: frame.done")
		return
	}
	n := 0
	cnt := map[string]int{}
	for _, fn := range allSSAFuncs(ic.SP) {
		for _, b := range fn.Blocks {
			for _, ins := range b.Instrs {
				call, ok := ins.(*ssa.Call)
				if !ok || staticCalleeName(&call.Call) != "reflect.Select" {
					continue
				}
				n++
				root := ssaFuncName(fn)
				if i := strings.Index(root, "$"); i > 0 {
					root = root[:i]
				}
				cnt[root]++
				key := fmt.Sprintf("%s/Select#%d/done-from-frame", root, cnt[root])
				_, found := selectDoneIndex(call.Call.Args[0], doneFld)
				r.Check(found, "R10.3", key, ic.pos(call.Pos()), "the cancellation case is loaded from the executing frame",
					"no case of this reflect.Select is loaded from frame.done at execution time: a cancellation case kept from an earlier (cancelled) evaluation is closed for good, so this definition stops waiting and returns zero values in every later evaluation")
			}
		}
	}
	if n < 4 {
		r.Errorf("R10.3: only %d reflect.Select sites found", n)
	}
}

// watcherPreparation: the exported context-taking entry points prepare the interpreter in the
// same way before starting the evaluation goroutine (same set of Interpreter fields written,
// directly or through an in-package helper): sibling agreement.
func watcherPreparation(ic *IC, r *Report, rule string) {
	interpT := ic.Pk.Types.Scope().Lookup("Interpreter")
	if interpT == nil {
		return
	}
	ist := interpT.Type().Underlying().(*types.Struct)
	isInterpField := func(v *types.Var) bool {
		for i := 0; i < ist.NumFields(); i++ {
			if ist.Field(i) == v {
				return true
			}
		}
		return false
	}
	var fieldsWritten func(body ast.Node, until token.Pos, depth int) map[string]bool
	fieldsWritten = func(body ast.Node, until token.Pos, depth int) map[string]bool {
		out := map[string]bool{}
		ast.Inspect(body, func(n ast.Node) bool {
			if n == nil || (until.IsValid() && n.Pos() >= until) {
				return false
			}
			switch x := n.(type) {
			case *ast.FuncLit:
				return false
			case *ast.AssignStmt:
				for _, l := range x.Lhs {
					if v := selField(ic.Info, l); v != nil && isInterpField(v) {
						out[v.Name()] = true
					}
				}
			case *ast.CallExpr:
				if f, ok := calleeOf(ic.Info, x).(*types.Func); ok && f.Pkg() == ic.Pk.Types && depth < 2 {
					if fi := ic.G.Funcs[f]; fi != nil && fi.Decl.Body != nil && !token.IsExported(f.Name()) {
						for k := range fieldsWritten(fi.Decl.Body, token.NoPos, depth+1) {
							out[k] = true
						}
					}
				}
			}
			return true
		})
		return out
	}
	prep := map[string]string{}
	for _, name := range sortedKeys(ic.F) {
		fi := ic.F[name]
		if fi.Decl.Body == nil || !strings.HasPrefix(name, "Interpreter.") || !fi.Decl.Name.IsExported() {
			continue
		}
		if len(callsIn(ic.Info, fi.Decl.Body, false, "interp.Interpreter.stop")) == 0 {
			continue
		}
		var goPos token.Pos
		ownNodes(fi.Decl.Body, func(n ast.Node) bool {
			if g, ok := n.(*ast.GoStmt); ok && !goPos.IsValid() {
				goPos = g.Pos()
			}
			return true
		})
		if !goPos.IsValid() {
			continue
		}
		prep[name] = strings.Join(sortedKeys(fieldsWritten(fi.Decl.Body, goPos, 0)), ",")
	}
	if len(prep) < 2 {
		r.Errorf("%s: %d context watchers found", rule, len(prep))
		return
	}
	// majority value
	count := map[string]int{}
	for _, v := range prep {
		count[v]++
	}
	best := ""
	for v, c := range count {
		if c > count[best] || best == "" {
			best = v
		}
	}
	for _, name := range sortedKeys(prep) {
		r.Check(prep[name] == best, rule, name+"/preparation", ic.pos(ic.F[name].Decl.Pos()), "prepares {"+prep[name]+"} before starting the evaluation, like its siblings",
			name+" prepares the interpreter fields {"+prep[name]+"} before starting the evaluation while its sibling entry points prepare {"+best+"}: the cancellation state (done channel, cancellation case, mode) installed for this entry point differs, so a state left by an earlier cancelled evaluation is reused")
	}
}
