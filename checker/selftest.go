package main

func selftest(c *Config, only string) int { return 0 }
