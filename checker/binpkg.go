package main

import (
	"fmt"
	"go/token"
	"go/types"

	"golang.org/x/tools/go/ssa"
)

// checkBinPkgOwnership decides: every map stored into Interpreter.binPkg[k] is created
// (make or literal) by the storing function, never a map received from the caller.
func checkBinPkgOwnership(ic *IC, r *Report, rule string) {
	fld := ic.field("Interpreter", "binPkg")
	if fld == nil {
		r.Errorf("anchor not resolved: Interpreter.binPkg")
		return
	}
	isBinPkg := func(v ssa.Value) bool {
		for _, o := range origins(v, map[ssa.Value]bool{}) {
			if ld, ok := o.(*ssa.UnOp); ok && ld.Op == token.MUL {
				if fa, ok := ld.X.(*ssa.FieldAddr); ok {
					st := fa.X.Type().Underlying().(*types.Pointer).Elem().Underlying().(*types.Struct)
					if st.Field(fa.Field) == fld {
						return true
					}
				}
			}
		}
		return false
	}
	n := 0
	cnt := map[string]int{}
	for _, fn := range allSSAFuncs(ic.SP) {
		for _, b := range fn.Blocks {
			for _, ins := range b.Instrs {
				mu, ok := ins.(*ssa.MapUpdate)
				if !ok || !isBinPkg(mu.Map) {
					continue
				}
				n++
				owner := ssaFuncName(fn)
				cnt[owner]++
				key := fmt.Sprintf("%s/binPkg-store#%d", owner, cnt[owner])
				fresh := true
				why := ""
				for _, o := range origins(mu.Value, map[ssa.Value]bool{}) {
					switch o.(type) {
					case *ssa.MakeMap:
					default:
						fresh = false
						why = describeValue(o)
					}
				}
				r.Check(fresh, rule, key, ic.pos(mu.Pos()), "the stored package table is a map created by "+owner,
					"Interpreter.binPkg[k] receives "+why+", a map that is not created here: the per-interpreter overrides written later by fixStdlib (streams, environment, args, exit replacements) land in a map shared with the caller and with every other interpreter using it")
			}
		}
	}
	// whole-table stores: only constructors may replace the table
	for _, fn := range allSSAFuncs(ic.SP) {
		for _, b := range fn.Blocks {
			for _, ins := range b.Instrs {
				st, ok := ins.(*ssa.Store)
				if !ok {
					continue
				}
				if fa, ok := st.Addr.(*ssa.FieldAddr); ok {
					stt := fa.X.Type().Underlying().(*types.Pointer).Elem().Underlying().(*types.Struct)
					if stt.Field(fa.Field) == fld {
						owner := ssaFuncName(fn)
						_, isMake := st.Val.(*ssa.MakeMap)
						r.Check(isMake, rule, owner+"/binPkg-table", ic.pos(st.Pos()), "the table itself is a fresh map", "Interpreter.binPkg is replaced by a map that is not created here")
					}
				}
			}
		}
	}
	if n == 0 {
		r.Errorf("%s: no store into Interpreter.binPkg[k] found (Use expected)", rule)
	}
}
