package main

import (
	"go/token"
	"go/types"
	"sort"

	"golang.org/x/tools/go/ssa"
)

// SEdge is one edge of the static call graph over SSA functions.
type SEdge struct {
	To   *ssa.Function
	Kind string // call | defer | go | closure (closure passed to or called from the function)
	Pos  token.Pos
}

// SGraph is a static call graph of one package: static callees, immediately invoked or
// locally bound closures, and closures passed as arguments (except to reflect.MakeFunc:
// those run later, on behalf of whoever calls the made function). Dynamic calls through
// fields, slices and interfaces are not followed.
type SGraph struct {
	Pkg   *ssa.Package
	Funcs []*ssa.Function
	Out   map[*ssa.Function][]SEdge
	// MakeFuncRoots are the closures handed to reflect.MakeFunc.
	MakeFuncRoots []*ssa.Function
	// GoRoots are closures started by a go statement.
	GoRoots map[*ssa.Function]*ssa.Function // closure -> function containing the go statement
}

func fnOf(v ssa.Value) *ssa.Function {
	switch x := v.(type) {
	case *ssa.Function:
		return x
	case *ssa.MakeClosure:
		if f, ok := x.Fn.(*ssa.Function); ok {
			return f
		}
	}
	return nil
}

func buildSGraph(sp *ssa.Package) *SGraph {
	g := &SGraph{Pkg: sp, Funcs: allSSAFuncs(sp), Out: map[*ssa.Function][]SEdge{}, GoRoots: map[*ssa.Function]*ssa.Function{}}
	for _, fn := range g.Funcs {
		seen := map[string]bool{}
		add := func(to *ssa.Function, kind string, pos token.Pos) {
			if to == nil {
				return
			}
			k := kind + to.String()
			if seen[k] {
				return
			}
			seen[k] = true
			g.Out[fn] = append(g.Out[fn], SEdge{to, kind, pos})
		}
		for _, b := range fn.Blocks {
			for _, ins := range b.Instrs {
				ci, ok := ins.(ssa.CallInstruction)
				if !ok {
					continue
				}
				kind := "call"
				switch ins.(type) {
				case *ssa.Defer:
					kind = "defer"
				case *ssa.Go:
					kind = "go"
				}
				cc := ci.Common()
				var callees []*ssa.Function
				if cc.IsInvoke() {
					// interface method call: not followed
				} else if f := cc.StaticCallee(); f != nil {
					callees = append(callees, f)
				} else {
					for _, o := range origins(cc.Value, map[ssa.Value]bool{}) {
						if f := fnOf(o); f != nil {
							callees = append(callees, f)
						}
					}
				}
				for _, f := range callees {
					add(f, kind, ins.Pos())
					if kind == "go" && f.Parent() != nil {
						g.GoRoots[f] = fn
					}
				}
				isMakeFunc := false
				if f := cc.StaticCallee(); f != nil && f.Pkg != nil && f.Pkg.Pkg.Path() == "reflect" && f.Name() == "MakeFunc" {
					isMakeFunc = true
				}
				for _, a := range cc.Args {
					for _, o := range origins(a, map[ssa.Value]bool{}) {
						if f := fnOf(o); f != nil && f.Pkg == sp {
							if isMakeFunc {
								g.MakeFuncRoots = append(g.MakeFuncRoots, f)
							} else if kind != "go" {
								add(f, "closure", ins.Pos())
							} else {
								add(f, "go", ins.Pos())
							}
						}
					}
				}
			}
		}
		sort.Slice(g.Out[fn], func(i, j int) bool { return g.Out[fn][i].To.String() < g.Out[fn][j].To.String() })
	}
	return g
}

// callsBuiltin reports whether fn contains a call of the named builtin.
func callsBuiltin(fn *ssa.Function, name string) bool {
	for _, b := range fn.Blocks {
		for _, ins := range b.Instrs {
			if c, ok := ins.(ssa.CallInstruction); ok {
				if bi, ok := c.Common().Value.(*ssa.Builtin); ok && bi.Name() == name {
					return true
				}
			}
		}
	}
	return false
}

func hasPanicInstr(fn *ssa.Function) bool {
	for _, b := range fn.Blocks {
		for _, ins := range b.Instrs {
			if _, ok := ins.(*ssa.Panic); ok {
				return true
			}
		}
	}
	return false
}

// protector reports whether fn defers a function that recovers and never re-panics.
func protector(fn *ssa.Function) (*ssa.Function, bool) {
	for _, b := range fn.Blocks {
		for _, ins := range b.Instrs {
			d, ok := ins.(*ssa.Defer)
			if !ok {
				continue
			}
			var cands []*ssa.Function
			if f := d.Call.StaticCallee(); f != nil {
				cands = append(cands, f)
			} else {
				for _, o := range origins(d.Call.Value, map[ssa.Value]bool{}) {
					if f := fnOf(o); f != nil {
						cands = append(cands, f)
					}
				}
			}
			for _, f := range cands {
				if callsBuiltin(f, "recover") && !hasPanicInstr(f) {
					return f, true
				}
			}
		}
	}
	return nil, false
}

// inPkgFunc reports whether f is a source function of the graph's package.
func (g *SGraph) inPkg(f *ssa.Function) bool { return f != nil && f.Pkg == g.Pkg }

// unprotectedPath searches a path from root to sink that passes no protector (root
// included). It returns the path as function names, or nil.
func (g *SGraph) unprotectedPath(root, sink *ssa.Function, skipGo bool) []string {
	return g.unprotectedPathCut(root, sink, skipGo, nil)
}

// unprotectedPathCut is unprotectedPath that does not walk through the functions named in cuts.
func (g *SGraph) unprotectedPathCut(root, sink *ssa.Function, skipGo bool, cuts map[string]string) []string {
	type item struct {
		f    *ssa.Function
		prev *item
	}
	if _, ok := protector(root); ok {
		return nil
	}
	seen := map[*ssa.Function]bool{root: true}
	q := []*item{{root, nil}}
	for len(q) > 0 {
		it := q[0]
		q = q[1:]
		if it.f == sink {
			var p []string
			for x := it; x != nil; x = x.prev {
				p = append([]string{ssaFuncName(x.f)}, p...)
			}
			return p
		}
		for _, e := range g.Out[it.f] {
			if !g.inPkg(e.To) || seen[e.To] {
				continue
			}
			if skipGo && e.Kind == "go" {
				continue
			}
			if cuts != nil && cuts[ssaFuncName(e.To)] != "" {
				continue
			}
			if e.Kind == "defer" && e.To != sink {
				// a deferred function runs during unwinding of it.f: still on behalf of the caller chain
			}
			seen[e.To] = true
			if _, ok := protector(e.To); ok {
				continue
			}
			q = append(q, &item{e.To, it})
		}
	}
	return nil
}

// reachSet returns the in-package functions reachable from roots (go edges optional).
func (g *SGraph) reachSet(skipGo bool, roots ...*ssa.Function) (map[*ssa.Function]bool, map[*ssa.Function]*ssa.Function) {
	set := map[*ssa.Function]bool{}
	parent := map[*ssa.Function]*ssa.Function{}
	var q []*ssa.Function
	for _, r := range roots {
		if r != nil && !set[r] {
			set[r] = true
			q = append(q, r)
		}
	}
	for len(q) > 0 {
		f := q[0]
		q = q[1:]
		for _, e := range g.Out[f] {
			if !g.inPkg(e.To) || set[e.To] || (skipGo && e.Kind == "go") {
				continue
			}
			set[e.To] = true
			parent[e.To] = f
			q = append(q, e.To)
		}
	}
	return set, parent
}

func ssaPath(parent map[*ssa.Function]*ssa.Function, f *ssa.Function) []string {
	var p []string
	for x := f; x != nil; x = parent[x] {
		p = append([]string{ssaFuncName(x)}, p...)
		if len(p) > 60 {
			break
		}
	}
	return p
}

// method returns the SSA function of method name on *T or T of the package.
func ssaMethod(sp *ssa.Package, typ, name string) *ssa.Function {
	o := sp.Pkg.Scope().Lookup(typ)
	if o == nil {
		return nil
	}
	for _, t := range []types.Type{types.NewPointer(o.Type()), o.Type()} {
		ms := sp.Prog.MethodSets.MethodSet(t)
		for i := 0; i < ms.Len(); i++ {
			if ms.At(i).Obj().Name() == name {
				return sp.Prog.MethodValue(ms.At(i))
			}
		}
	}
	return nil
}

// reachesCut reports whether sink is reachable from root (go edges skipped) without walking
// through the functions named in cuts.
func (g *SGraph) reachesCut(root, sink *ssa.Function, cuts map[string]string) bool {
	seen := map[*ssa.Function]bool{root: true}
	q := []*ssa.Function{root}
	for len(q) > 0 {
		f := q[0]
		q = q[1:]
		if f == sink {
			return true
		}
		for _, e := range g.Out[f] {
			if !g.inPkg(e.To) || seen[e.To] || e.Kind == "go" || cuts[ssaFuncName(e.To)] != "" {
				continue
			}
			seen[e.To] = true
			q = append(q, e.To)
		}
	}
	return false
}
