package main

import (
	"fmt"
	"go/ast"
	"go/token"
	"go/types"
	"sort"
	"strings"

	"golang.org/x/tools/go/packages"
	"golang.org/x/tools/go/ssa"
)

// IC is the loaded interp package with its indexes.
type IC struct {
	P    *Prog
	Pk   *packages.Package
	Info *types.Info
	G    *PkgGraph
	F    map[string]*FuncInfo
	SP   *ssa.Package
	// Aliases maps the historical key of a renamed anchor function to its current key.
	Aliases map[string]string
	// FixFi: the function holding the per-interpreter overrides (fixStdlib), set by the C13 rules.
	FixFi *FuncInfo
}

var icCache = map[string]*IC{}

// loadInterp loads ./interp of the working tree (host configuration unless env is given).
func loadInterp(c *Config, withSSA bool, env ...string) (*IC, error) {
	key := fmt.Sprint(withSSA, env, len(c.Overlay))
	if ic, ok := icCache[key]; ok && len(c.Overlay) == 0 {
		return ic, nil
	}
	p, err := c.load(loadOpts{patterns: []string{"./interp"}, ssa: withSSA, env: env})
	if err != nil {
		return nil, err
	}
	pk := p.Pkgs[0]
	ic := &IC{P: p, Pk: pk, Info: pk.TypesInfo, G: buildPkgGraph(pk), F: funcs(pk)}
	if withSSA {
		ic.SP = p.SSAOf[pk]
		if ic.SP == nil {
			return nil, fmt.Errorf("no SSA package for %s", pk.PkgPath)
		}
	}
	resolveRoles(ic)
	if len(c.Overlay) == 0 {
		icCache[key] = ic
	}
	return ic, nil
}

// fn returns the declaration named name ("Recv.name" or "name"); a missing anchor is a
// failure of the check.
func (ic *IC) fn(r *Report, name string) *FuncInfo {
	if fi := ic.F[name]; fi != nil && fi.Decl.Body != nil {
		return fi
	}
	r.Errorf("anchor not resolved: function %s not found in package interp", name)
	return nil
}

func (ic *IC) pos(p token.Pos) string { return ic.P.pos(p) }

// field returns the *types.Var of field `name` of the named struct type `typ` of the package.
func (ic *IC) field(typ, name string) *types.Var {
	o := ic.Pk.Types.Scope().Lookup(typ)
	if o == nil {
		return nil
	}
	st, ok := o.Type().Underlying().(*types.Struct)
	if !ok {
		return nil
	}
	for i := 0; i < st.NumFields(); i++ {
		if st.Field(i).Name() == name {
			return st.Field(i)
		}
	}
	return nil
}

// selField returns the field object selected by e (x.f), or nil.
func selField(info *types.Info, e ast.Expr) *types.Var {
	se, ok := unparen(e).(*ast.SelectorExpr)
	if !ok {
		return nil
	}
	if s := info.Selections[se]; s != nil && s.Kind() == types.FieldVal {
		if v, ok := s.Obj().(*types.Var); ok {
			return v
		}
	}
	return nil
}

// fieldKey renders a field as Type.field when it belongs to a named struct of pkg.
func fieldKey(pkg *types.Package, v *types.Var) string {
	if v == nil {
		return ""
	}
	sc := pkg.Scope()
	for _, n := range sc.Names() {
		tn, ok := sc.Lookup(n).(*types.TypeName)
		if !ok {
			continue
		}
		st, ok := tn.Type().Underlying().(*types.Struct)
		if !ok {
			continue
		}
		for i := 0; i < st.NumFields(); i++ {
			if st.Field(i) == v {
				return n + "." + v.Name()
			}
		}
	}
	return v.Name()
}

// tri-state evaluation of boolean conditions ----------------------------------------

const (
	triFalse   = 0
	triTrue    = 1
	triUnknown = -1
)

// evalCond evaluates e with three-valued logic. atom is asked for every sub-expression
// that is not a !, && , || or parenthesis; it returns triUnknown when it has no opinion.
func evalCond(e ast.Expr, atom func(ast.Expr) int) int {
	switch x := unparen(e).(type) {
	case *ast.UnaryExpr:
		if x.Op == token.NOT {
			switch evalCond(x.X, atom) {
			case triTrue:
				return triFalse
			case triFalse:
				return triTrue
			}
			return triUnknown
		}
	case *ast.BinaryExpr:
		switch x.Op {
		case token.LAND:
			a, b := evalCond(x.X, atom), evalCond(x.Y, atom)
			if a == triFalse || b == triFalse {
				return triFalse
			}
			if a == triTrue && b == triTrue {
				return triTrue
			}
			return triUnknown
		case token.LOR:
			a, b := evalCond(x.X, atom), evalCond(x.Y, atom)
			if a == triTrue || b == triTrue {
				return triTrue
			}
			if a == triFalse && b == triFalse {
				return triFalse
			}
			return triUnknown
		}
	}
	return atom(unparen(e))
}

// enclosingPath returns the chain of nodes from root down to target (inclusive).
func enclosingPath(root ast.Node, target ast.Node) []ast.Node {
	var path, found []ast.Node
	ast.Inspect(root, func(n ast.Node) bool {
		if found != nil {
			return false
		}
		if n == nil {
			path = path[:len(path)-1]
			return true
		}
		path = append(path, n)
		if n == target {
			found = append([]ast.Node(nil), path...)
			return false
		}
		return true
	})
	return found
}

// stringLits returns the set of string literal values occurring in n.
func stringLits(n ast.Node) map[string]token.Pos {
	m := map[string]token.Pos{}
	ast.Inspect(n, func(x ast.Node) bool {
		if bl, ok := x.(*ast.BasicLit); ok && bl.Kind == token.STRING {
			s := bl.Value
			if len(s) >= 2 {
				s = s[1 : len(s)-1]
			}
			if _, ok := m[s]; !ok {
				m[s] = bl.Pos()
			}
		}
		return true
	})
	return m
}

func sortedKeys[V any](m map[string]V) []string {
	ks := make([]string, 0, len(m))
	for k := range m {
		ks = append(ks, k)
	}
	sort.Strings(ks)
	return ks
}

func joinSorted(m map[string]bool) string { return strings.Join(sortedKeys(m), " ") }
