#!/usr/bin/env python3
"""Regenerates /verif/MANIFEST.json from the table below (single source of truth)."""
import json, os
V = os.path.dirname(os.path.dirname(os.path.abspath(__file__)))

# id -> (category, level text, level note, technique, design ref)
CLAIMED = {
 "C01": ("other",
  "The property as a whole (output equality over an unbounded family of programs) is not statically decidable here; eleven mechanism clauses that are necessary conditions of it are decided: scope push/pop pairing by node kind in cfg, fresh slot allocation by every closure generated for ':=', the three per-iteration loop-variable generators and their unconditional installation, completeness of the AST copier used for generics against the AST builder, operator/generator agreement (shared with C02), evaluation of all sources of a multiple assignment and of all operands of a multi-value return before any destination is written, the result of an expression stored on every path of its run-time closure (no stale slot), byte offsets for both forms of range over a string, no store through the slot index of a blank range value, and the 'i := i' loop-variable shortcut testing its source operand. CFG wiring, frame-index computation, most skip-assign optimisations and value semantics - the main content of the property - are NOT decided.",
  "Defects D14, D23 (return generator), D28-D32 were found through R01.6-R01.11 and repaired ('fix:' commits). Fifth round: also decided - every closure of the loop-variable generators allocates (no escape-analysis variant), a redeclared loop variable is a new variable for every variable of the clause, branching variants store on every path, the allocation of := is decided by the statement alone, continue goes through the copy-back node, every expression of a case list is wired, an empty switch evaluates its header, the hidden slot of every array range form, and the in-place shortcuts exclude definitions. Defects D67-D73 found and repaired.",
  "sibling/pairing lints over the typed syntax tree (custom go/types analyzer)", "DESIGN.md §2 C01"),
 "C04": ("other",
  "Structural necessary conditions of the copying half of 'copied or shared exactly as Go prescribes': the places where the interpreter must detach a value do so on every path - temporaries of a multiple assignment and of a multi-value return, fresh slots for the arguments and receivers of every activation, per-evaluation allocation of composite values (no run-time closure writes or reflect-sets a value captured from its generator), the detached copy a range statement iterates over, no frame slot rebound to the plain result of a value generator, a clone of the frame for every closure value, and an expression's result stored on every path (a missed map lookup yields the zero value). What a reflect.Value aliases at run time (Index/Field views), and append/copy/slicing (delegated to reflect), are NOT decided: the property's quantifier over operation histories is not reached by this check.",
  "Most clauses are the same analyses as clauses of C01/C05/C08/C11, reported under R04.x; R04.5 (range shadow copy) and R04.8 (slot never bound to a generator result) are specific. Frozen exceptions: the result slots of an interpreted call, the hidden slots of range statements. Fifth round: the exception for the result slots of an interpreted call is REMOVED (it froze defect D74, now repaired); R04.14 decides f(s...) in both directions.",
  "def-use/ownership lints over run-time closures (captured-write rule, slot-binding rule) + go/cfg path rules", "DESIGN.md section 2 C04"),
 "C07": ("other",
  "Structural necessary conditions of the two call bridges: every variant of the compiled-call generator builds a fresh argument vector inside the run-time closure and fills it completely, in order, through the one wrapping helper; the reflect.MakeFunc bridge of an interpreted function stores every incoming argument, runs the body and returns exactly the result slots; activation frames get fresh slots; results of a compiled call in a return statement go to the allotted slot; Use never aliases the caller's Exports map; the wrapper for an interpreted value handed to compiled code is chosen on its full method set. Whether a particular value survives reflection across the boundary (interfaces, func-typed values, zero values, variadic packing) is NOT decided.",
  "Sibling agreement of the six callBin variants is the specific clause; the others are shared analyses of C02/C05/C13. Fifth round: R07.15 (= R05.8), R07.16 (slots addressed at their frame level), R07.17 (Globals hands out the live variables).",
  "sibling cross-check of the call-bridge variants + shared ownership lints (custom go/types analyzer)", "DESIGN.md section 2 C07"),
 "C05": ("other",
  "One table-agreement clause of 'interpreted values handed to compiled code have their interpreted methods invoked': every key of stdlib.MapTypes denotes the function value actually bound (default binding, or fixStdlib override re-keyed from it), every re-keying reads an existing key, and every bound ...interface{} function of a keyed package is keyed; plus two structural clauses of 'sees the same receiver state' and of method-set shadowing: the slots of every frame created for an activation are bound only to fresh storage (receivers and arguments are copied in), and in the method-set computation a type's own methods take precedence over promoted ones. Method resolution, dynamic dispatch, type assertions and type switches depend on run-time valueInterface contents and are NOT decided (four seeded changes of that kind are not detected).",
  "Defects K6/D13 (log.Fatal*, log.Print*, fmt.Sscan*/Fscan*/Append* not wrapped) were found by this rule and repaired. Fifth round: R05.8 (the reflect Implements shortcut of the interface wrapper is never taken for structs) and R05.9 (the nil-interface failure of a type assertion is decided on validity only).",
  "table agreement between stdlib.MapTypes, the default bindings and fixStdlib (custom go/types analyzer)", "DESIGN.md §2 C05"),
 "C18": ("other",
  "Structure of the extract generator only: exhaustive object classification keyed by scope name, guards placed per object kind, shape of the embedded template (parsed with text/template/parse), exact printing of constants per kind, unconditional import marking by the type qualifier, the '...' suffix of forwarded variadic arguments written last, restricted names declared. Whether the emitted text compiles and binds faithfully is a property of strings produced at run time and is NOT decided (what the committed outputs say is decided by C14). Weakest claim of the set.",
  "Trusted: text/template/parse. Fifth round: R18.7 (Extractor keeps no state), R18.8 (build-tag separators agree with the constraint line), R18.9 (no big.Int of a constant mutated).",
  "structural lint of the generator and static parse of its embedded template", "DESIGN.md §2 C18"),
 "C19": ("other",
  "Structural clauses of debugger transparency: the debugger hooks and session API store only into debugger-owned state (SSA store targets, with interprocedural resolution of local maps), the plain and debugger execution loops are siblings, the breakpoint test dominates every mode-dependent 'keep running' return, the terminate event is deferred before execution, the breakpoint placement walk never prunes, the cancellable channel-operation variants (the ones a debugged program runs) store reflect's ok, and the two kinds of breakpoint flags are written only in their own section of SetBreakpoints. Equality of outputs under arbitrary stepping sequences and event ordering are NOT decided.",
  "(The former frozen exception - SetBreakpoints forcing the lazy generation of exec closures through setExec - was a defect: D94.) Fifth round: R19.9 (debugger detached at the end of the session), R19.10 (= R06.10 over the debugger's functions), R19.7 reports merged flags.",
  "non-interference by store-target classification on SSA + go/cfg dominance", "DESIGN.md §2 C19"),

 "C02": ("other",
  "Table/shape agreement over every operator closure (425 run-time closures, 34 operator generators, 15 constant folders): operator token -> action -> generator -> Go operator, kind class <-> accessor/extractor/setter in every kind case (with the effective kind set of predicate-ordered cases), operand order, branch polarity, constant operands materialised through the accessor of their kind, completeness of the numeric class in every kind case (uintptr), and the two 'store directly' optimisations of cfg guarded so that an operand never overwrites a slot another operand still reads (compound assignment, multi-value return with named results). Because the arithmetic is done by Go's own operator on the 64-bit widening and reflect setters truncate, wrap-around/truncation/sign extension/rounding follow once these facts hold; nothing is evaluated. Not decided: the operator type rules of typecheck.go, reflect.Value.Convert, string conversions, rewrites of the operator tree done by cfg (e.g. folding !(a<b)), result-slot allocation.",
  "Trusted: Go's operators, reflect accessors/setters. Defects D22 (++/-- on uintptr) and D23 (multi-value return with named results) were found by R02.3/R02.8 and repaired. A seeded change rewriting !(a<b) into a>=b in cfg (NaN) is NOT detected (documented in DESIGN.md). Fifth round: a float is never narrowed through the other integer class anywhere in the package (type-resolved conversion chains), and only the assigned expression itself takes the destination's slot (R02.11 chain, R02.12).",
  "exhaustiveness + sibling table agreement over syntax trees resolved with go/types (custom lint)", "DESIGN.md §2 C02"),
 "C03": ("other",
  "Structural clauses of constant handling: folder tokens agree with their action; go/constant accessors agree with the reflect kind of their case and both parts of complex constants are examined; the integer width table equals 8*sizeof per kind and is complete; signed kinds are bounded with width-1 bits and cannot reach the unsigned full-width comparison; iota bookkeeping pairing at both sites; literals are materialised by go/constant's own parser (rune literals by UnquoteChar, never through a string); shared type objects are never overwritten in place. Arbitrary-precision results, default types and rounding are go/constant's and are trusted; 'rejected instead of evaluated' is decided only through the representability clauses.",
  "Defects D2 (signed bound) and D17 (int width on 32-bit hosts) were found by R03.4/R03.3 and repaired. Width table checked for the host configuration (quick) and GOARCH=386 (thorough). Fifth round: completeness of compile-time folding (R03.12: D56, D58), an exact-result check before every folder invocation (R03.13: D57), exactness flags consumed when a constant is materialised (R03.14), rounding accessors under the kinds of their width (R03.8 width).",
  "table agreement + go/cfg reachability + sibling cross-check (custom go/types lint)", "DESIGN.md §2 C03"),

 "C06": ("other",
  "Structural clauses of panic/defer/recover handling decided on the call graph, go/cfg and SSA of package interp: every path from an exported entry point (and from each goroutine it starts) to the execution loop passes a converting, non-re-panicking recover; defer records are prepended one at a time and consumed once in order; recorded argument values are copies made when the defer statement executes; the unwinding function recovers, runs the records, then re-panics conditionally; recover() reads and clears the caller frame's panic value; converting recovers return Panic{Value: recovered}; each deferred record is invoked under its own recover; the generator of recover stores its result on every path. Necessary conditions only: which faults reflect raises, and recover's 'called directly' rule at run time, are not decided.",
  "Trusted: go/ssa, go/cfg, reflect raising ordinary panics. Dynamic calls through fields/slices are not followed (the execution loop is the sink). Defects D3, D6, D16 and D28 were found by these rules and repaired ('fix:' commits). Fifth round: R06.15 - the compile passes are reached only through a converting recover (D75: seven ill-typed inputs crashed the host); R06.7 order clause, R06.13 substitute clause.",
  "static call-graph must-pass-through (converting recover) + go/cfg dominance + AST shape rules on defer records", "DESIGN.md §2 C06"),
 "C08": ("other",
  "Structural clauses of race freedom of the interpreter's own bookkeeping, over every run-time closure of package interp (lexical ownership rule with alias tracking; SSA provenance of the frame given to each activation and of goroutine argument vectors; freshness of every slot of a frame created for an activation; lock pairing on every go/cfg path, no entry into interpreted code under a frame lock, and a guarded-by table for frame.done / Interpreter.done; the binary-package table never aliasing the caller's map). No schedule is explored; data-race freedom in general is not decided.",
  "Trusted: go/types, go/ssa, go/cfg. Effects of callees are not followed. Defects D1, D5 and D15 were found by these rules and repaired ('fix:' commits). Fifth round: R08.7 (= R07.7), R08.8 (select chooses through reflect.Select only).",
  "ownership/effect lint over closures (captured-write rule) + SSA value provenance + lock-pairing on go/cfg", "DESIGN.md §2 C08"),
 "C09": ("other",
  "Structural necessary conditions of cancellation: run-id gate in every execution loop, id/done inheritance in every frame constructor and newFrame call, every blocking channel operation either disabled under cancellable mode or racing the frame's done case and stopping when it fires, the three context watchers, stop() and run(). Promptness and blocking host functions are not decided.",
  "Trusted: reflect.Select/TryRecv/TrySend semantics, go/ssa. Known finding K11 (mode chosen at closure-generation time) is printed as KNOWN-FINDING. Fifth round: R09.4 also requires that nothing is evaluated outside the watcher.",
  "SSA value provenance + AST/three-valued condition evaluation + sibling cross-check of the watchers", "DESIGN.md §2 C09"),
 "C10": ("other",
  "Two clauses about run ids surviving a cancellation: the root frame id is refreshed before every run in Execute (go/cfg dominance) and callbacks handed to reflect.MakeFunc must not gate on a run id captured at creation (SSA provenance). Nothing else about post-cancellation state is decided.",
  "Known findings K2/K3 (both MakeFunc callbacks gate on a captured frame's id) are printed as KNOWN-FINDING; they are genuine defects whose repair needs a design decision (it conflicts with stopping callbacks entered by goroutines running at the time of the cancel).",
  "go/cfg dominance + SSA provenance of the id operand", "DESIGN.md §2 C10"),

 "C11": ("other",
  "Persistence clauses behind 'piecewise equals whole': the persistent tables of the interpreter are allocated once by the constructor (SSA store sites), the global frame grows in place (copy of the old vector, only the new tail initialised), package scopes are created only when absent, every evaluation/compilation entry point goes through the one pipeline, every closure value captures a clone of its defining frame (also the global frame), every (re)definition in the global pass gets a symbol and a slot of its own, the variables of a multiple-value define are not flagged global (which would defeat their redeclaration), the ordering of package variables waits only for variables of the current evaluation, and the source name recorded by EvalPath is never reset by an anonymous Eval. Equality of output and global state across arbitrary cuts of a program is NOT decided.",
  "Defects D25 and D26b were found by R11.7/R11.9 and repaired; D26b was a regression of an earlier repair, exposed by running the seeded demonstrations on the repaired tree (DESIGN.md section 7). Fifth round: R11.12 (main started only by the unit declaring it; D59).",
  "who-may-write analysis on SSA store sites + call-graph reachability + SSA value provenance", "DESIGN.md §2 C11"),
 "C15": ("other",
  "Structural clauses of initialisation order: root code, then the global-variable node, then the forward loop over the start list, on every go/cfg path of Execute and importSrc; main appended after every init contribution; the per-file pass contributes only init functions by appending; import-once test dominating everything in importSrc; the dependency collector follows function symbols and methods and ignores identifiers only where they cannot refer to a variable; the selection restarts from the earliest pending variable after each selection; every variable symbol created by the global pass records its declaration; unresolved right-hand sides are retried instead of rejected. That the collected dependency sets are complete for every expression form is NOT decided.",
  "Defects D12, D24, D26, D27 and D33 were found by R15.4-R15.8 and repaired ('fix:' commits). Fifth round: R15.13 (blank identifier, struct-literal field names, function literals; D60-D62), R15.2 excludes methods named init.",
  "go/cfg dominance over resolved call sites + sibling cross-check of Execute/importSrc", "DESIGN.md §2 C15"),
 "C16": ("other",
  "Structural clauses of source-import resolution inside importSrc/pkgDir: import-once test first, cycle test before cycle mark before any loading or recursing call, relative imports built from the importing file's directory, vendor candidate examined before the GOPATH candidate and the search continued from previousRoot on the interpreter's filesystem, the in-progress table tested and marked under the same key, in previousRoot the upward search for the closest vendor directory before any other answer, every file access under importSrc going through io/fs on Options' filesystem. The path arithmetic of effectivePkg/previousRoot (string values) is NOT decided: three seeded changes of that kind are not detected.",
  "Trusted: go/cfg dominance. See DESIGN.md for the undetected seeded changes. Fifth round: R16.6 (root handed to the imports of a relatively imported package), R16.7 (import-once identity: known finding K14).",
  "go/cfg dominance/ordering rules + who-may-call rule for file-system access", "DESIGN.md §2 C16"),

 "C12": ("other",
  "Structural clauses of 'rejected before anything runs': Execute dominated by the nil branch of the compile error (SSA dominance); importSrc never returns from execution to compilation; nothing reachable from CompileAST reaches the execution functions (static call graph); error discipline of the compile passes (no implicit discard, explicit discards only from a reviewed table, no error definition overwritten by a possibly-nil one before being read or while known to be non-nil: branch-sensitive reaching definitions on go/cfg over every error variable of every compile-pass function); every typecheck method reachable from the cfg pass. The predicates inside the type rules are NOT decided: a loosened assignableTo/convertibleTo is invisible to this check, and 'the well-typed program is never rejected' is not decided.",
  "Known finding K1 (imported source packages are initialised while the importer is still compiled) printed as KNOWN-FINDING. Six overwrite sites are frozen exceptions with their reason in the checker (c12Overwrites). Fifth round: R12.12 (= R03.4/R03.8), R12.13 (three-valued evaluation of convertibleTo under pointer/uintptr kind scenarios), R12.14 (= R06.15: a fault of a compile pass is an error, not a host panic; D75).",
  "call-graph reachability + SSA dominance + reaching-definitions dataflow on go/cfg (error discipline lint)", "DESIGN.md §2 C12"),

 "C13": ("other",
  "Table and effect rules of restricted mode: forbidden packages absent from the default table (keys, values, imports) and writers of the binary-package table; every extract.restricted replacement declared, bound under the name it replaces, call-compatible, opaque, and with no static call path to a process exit; no default binding returning the real *log.Logger; every os environment function (slot-filled from the os package's SSA) overridden in the restricted branch by a closure over the interpreter's env map only; every fmt/log/flag function using the host's streams, std logger or CommandLine (slot-filled by SSA of the installed library) overridden per interpreter; os.Args and the print builtins; the binary-package table never aliasing the caller's map. Liveness of the host in general (other ways for a bound function to exit), fd 0/1/2 I/O and sequences of environment operations are not decided.",
  "Reference = SSA of os/log/fmt/flag of the installed toolchain; static callees only. Known findings K4 (log.Default, slog.NewLogLogger, syslog.NewLogger hand out the real logger) and K5 (31 flag functions use the host's CommandLine) are printed as KNOWN-FINDING. Fifth round: Options.Env entries cut at the first '=', R13.8 (a failed import always ends in an error).",
  "table/who-may-write lint + effect rules slot-filled from the SSA of the reference library (custom go/ssa analyzer)", "DESIGN.md §2 C13"),
 "C14": ("translation_validation",
  "Complete validation of the committed output of the extract translator against its input: every one of the ~16 000 (quick: host platform, both releases) / ~187 000 (thorough: all 47 GOOS/GOARCH of syscall, both releases) binding entries is checked to denote its namesake in one of the generated forms, untyped constants are compared exactly with go/constant, the bound name sets are compared with the library's exported non-generic objects per release (GOROOT/api deltas), table keys / duplicates / build-constraint headers are checked, and every interface wrapper is checked field-by-field and method-by-method (signature identity, forwarding call shape). The space is finite and enumerated completely.",
  "Trusted: go/types, go/constant, GOROOT/api of the installed toolchain; Go 1 compatibility for go1.21/go1.22 symbols judged against the 1.23.5 library. Defects D9, D10 and D18 (formerly known finding K10) were found by this check and repaired; no known finding remains for C14. Completeness of syscall on platforms GOROOT/api does not describe is not decided (stated per platform in the evidence). Fifth round: R14.8 - host constants re-bound by fixStdlib denote the name they are stored under.",
  "translation validation of generated tables against go/types + go/constant + GOROOT/api (custom analyzer)", "DESIGN.md §2 C14"),

 "C17": ("other",
  "Static agreement of yaegi's file-selection code with the go/build reference sources: OS/arch table key sets, the tag conditions of matchTag, //go:build support, gating of read/parse by the verdict on every go/cfg path, orientation of the release comparison, complete iteration of the three levels of a constraint and of the yaegi:tags list, and the keep verdicts of the file-name rule (the last name element decided against both tables on every path, _test suffix removed first). Necessary structural conditions of the property; the boolean evaluation of arbitrary constraint lines is not decided.",
  "Trusted: go/types, go/cfg, GOROOT/src/go/build of the installed toolchain as the reference. Defects D4, D20 and D21 were found by R17.1/R17.7 and repaired. Known findings K8/K9 (unix and implied-OS tags, //go:build lines) are printed as KNOWN-FINDING. Fifth round: R17.10 (string indexes dominated by a length test; D63), R17.11-R17.13 (D64-D66), R17.6 group loop.",
  "table agreement with go/build + go/cfg reachability/dominance (custom go/types analyzer)", "DESIGN.md §2 C17"),
}

NOT_APPLICABLE = {
}

PENDING = "check not built yet in this revision (designed in DESIGN.md §2; it will be claimed once its rules are implemented)"


# sixth-round additions to the level notes (rules added from the round-6 seeds and reports; DESIGN.md section 2, "Sixth round")
SIXTH = {
 "C01": "R01.3 helper clause, R01.30 (composite literal built apart from its destination), R01.31/R01.32 (return statement, cfg and callBin agree on direct stores; found D98), R01.33 (return f() forwards every value; D99), R01.34 (declared functions as values; D104), R01.35 (a struct literal wraps for an interface destination only when built there; D111, a regression of D38), R01.36 (no possibly-nil successor stored).",
 "C02": "R02.13 (no dead class case), R02.14 (no process-wide memo), R02.15, R02.16 (unsigned kinds not read as signed), R02.17 (nil comparison selects the non-nil operand; D97), R02.18 (switch tag never converted; D100), R02.19 (result cells allocated per execution), R02.20 (operation results not computed in a variable two levels up).",
 "C03": "R03.16 (= R02.14), R03.17 (acceptance independent of the operator), R03.18 (folders give fresh values), R03.19 (sign test in the unsigned case), R03.20 (= R02.16), R03.21 (folders take their exact result from go/constant); R03.17 also refuses acceptances decided on the magnitude of the operands.",
 "C04": "R04.1 through helpers, R04.13 for every generator, R04.17 (literals populate a value of their own), R04.18 (= R07.7), R04.19 (literal whose address is taken; D93), R04.20 (interface conversion copies; D92), R04.21 (append spreads by the ellipsis; D95), R04.22 (temporaries typed by the value; D96), R04.23 (= R05.11: the receiver copy is made after the dereference). The frozen exception of R04.8 mentioned above was removed in the fifth round (D74).",
 "C05": "R05.11 pointer receivers (D91), R05.12 (every exit completes v, ok), R05.13, R05.14, R05.15 (= R04.20), R05.16 (failed single-value assertion panics; D101), R05.17 (type switch on interface values; D102), R05.18 (shallowest promoted member; D103).",
 "C06": "R06.2 consumer clause (the deferred list is not replaced), R06.4 no exit between the deferred calls and the test of recovered.",
 "C07": "R07.1 through helpers, R07.19 (= R05.6), R07.20 (= R04.13 on callBin), R07.21 (= R01.34).",
 "C08": "R08.10 (receive status from the receive operation), R08.11 (callbacks write only their own frame; D90), R08.12 (= R05.11; D91), R08.13 (= R04.20; D92).",
 "C09": "R09.8 (= R08.1 on the generators creating frames or host callbacks), R09.9 (goroutines of go statements defer a guard; D110).",
 "C10": "R10.6 (= R06.2 consumer clause: a cancelled frame runs its deferred calls).",
 "C11": "R11.13 (every returned program is compiled by the call), R11.14 (package-level variables of a, b := f() are globals; D107); R11.4 has one named exception (the debugger's closure generation, D94).",
 "C12": "R12.17 (representable dominates convertConst), R12.18, R12.19 (registration after the checking passes), R12.20 (division by constant zero; D105), R12.21 (return arity; D106), R12.22 (case expressions checked against the tag; D109), R12.23 (only multi-value calls are unpacked), R12.24 (returns checked against the scope's current function), R12.25 (functions, slices, maps never comparable).",
 "C13": "R13.5 overrides unconditional on the streams.",
 "C15": "R15.14 (every variable reference is a dependency), R15.15 and R15.5 refined (names declared by a type expression are not references; D108).",
 "C16": "R16.5 examines disjunctions, R16.8 (= R02.14), R16.9 (the being-imported mark is removed on every exit).",
 "C17": "R17.14 (the constraint evaluator remembers nothing).",
 "C18": "R18.10 (types spelled by the qualified writer), R18.11 (no state between extractions).",
 "C19": "R19.11 (no table keyed by a code address), R19.12 (frame debug data never dropped), R19.13 (no code generation from arbitrary nodes; D94), R19.14 (the debugger is consulted before every node), R19.15 (the ancestor frame is not assumed to belong to the session; D112).",
}
EIGHTH = {
 "C01": "R01.37 (break leaves the innermost for, switch or select of its function; found D119, D120), R01.38 (range over a channel only in the form without key; D125), R01.39/R01.40 (select receive clauses: variable declared only for :=, every clause form has a direction; D127, D128), R01.41 (each blank assignment has its own location; D131), R01.42 (a redeclared variable keeps its type; D144).",
 "C02": "R02.21 (the direct-store shortcut of operator results is not taken for the blank identifier; D135, and D136 - a regression of D35 found by probing), R02.22 (division by a zero constant is an error only for a constant or integer dividend; D143).",
 "C03": "R03.22 (= R12.32: conversion of a typed constant checked; D121), R03.23 (unsafe builtin names agree; D124), R03.24 (iota reset at the start of each constant declaration; D130), R03.25 (no early acceptance of binaryExpr bypasses the operand type agreement; D146); R03.5 no longer counts that reset as an advance.",
 "C05": "R05.19 (a literal is not built in place of an error-typed destination; D139), R05.20 (nil interface values recognised before they are looked into; D140), R05.21 (promotion through embedded fields only, sibling agreement; D141), R05.22 (method depth and field depth compared in the same unit; D142).",
 "C06": "R06.18 (a panic that leaves a frame is no longer in flight there; D126).",
 "C07": "R07.22 (Symbols recomputed at each call), R07.23 (variadic test of callBin on a position of the parameter list).",
 "C08": "R08.14 (= R04.6: a literal called in place also captures a clone), R08.15 (= R01.39/R01.40), R08.16 (select send converts the value as a send statement; D129), guarded-by entry opt.env -> Interpreter.envMu in R08.3 with element stores counted as writes (D132: a script could kill the host with concurrent os.Setenv/os.Getenv).",
 "C11": "R11.15 (the first token of a chunk is the scanner's).",
 "C12": "R12.26-R12.34 (untyped nil, comparison operands, return constants, non-function callee, single-valued source, tagless switch conditions, break/continue targets, typed constant conversion, negative constant index, string element as destination; found D113-D118, D120-D123); the reviewed exception of R12.3 for binaryExpr was wrong and is removed; R12.35 (destination form; D137), R12.36 (forwarded return values; D138), R12.37 (= R01.42), R12.38 (addressable operands; D145), R12.39 (= R03.25).",
 "C15": "R15.16 (descent into referenced bodies independent of the initialiser's shape).",
 "C17": "R17.15 (callers of the constraint evaluator remember no verdict); K8 and K9 repaired (D133, D134): no known finding left for C17; R17.2 compares the table of unix systems with go/build's.",
 "C18": "R18.12 (imports registered where the text using them is produced).",
}
for _k, _v in EIGHTH.items():
    SIXTH[_k] = SIXTH.get(_k, "") + " Eighth round and late repairs: " + _v
for _k, _v in SIXTH.items():
    c = CLAIMED[_k]
    CLAIMED[_k] = (c[0], c[1], c[2] + " Sixth round: " + _v, c[3], c[4])

ids = [json.loads(l)["id"] for l in open(V + "/properties.jsonl")]
checks, na = [], []
for i in ids:
    if i in CLAIMED:
        cat, text, note, tech, ref = CLAIMED[i]
        checks.append({
            "property_id": i,
            "quick_cmd": "./check.sh check %s --tier quick" % i,
            "thorough_cmd": "./check.sh check %s --tier thorough" % i,
            "evidence_file": "/verif/evidence/%s.json" % i,
            "replay_cmd_template": "./check.sh replay {path}",
            "engine": "yverif",
            "level_claimed": {"category": cat, "text": text, "design_ref": ref},
            "level_note": note,
            "technique": "static analysis: " + tech,
        })
    else:
        na.append({"property_id": i, "reason": NOT_APPLICABLE.get(i, PENDING)})

m = {
 "version": 1,
 "setup_cmd": "cd /verif/checker && env -u GOWORK GOFLAGS=-mod=mod GOPROXY=off GOSUMDB=off GOTOOLCHAIN=local CGO_ENABLED=0 go build -o /verif/bin/yverif .",
 "hooks": {
  "guard": "verif",
  "enable": "none: static analysis needs no instrumentation of yaegi; no hook commit exists",
  "baseline_off_cmd": "cd /repo && go test -mod=mod -json -vet=off -count=1 -timeout 25m ./...",
  "source_commits": [],
  "add_only": True,
 },
 "engines": [{
  "name": "yverif", "path": "/verif/checker",
  "serves_properties": sorted(CLAIMED),
  "kind_free_text": "repository-specific static analyzer (go/packages + go/types + go/cfg + go/ssa, x/tools v0.29.0); loads /repo's working tree on every run, one rule per obligation, reports constructs (file:line, function, path)",
 }],
 "checks": checks,
 "not_applicable": na,
 "notes": "All checks are static (no interpreter, test, generator or solver is run). Genuine defects repaired in /repo by 'fix:' commits and recorded in /verif/known_findings.json; remaining genuine defects are listed there as known findings and printed as KNOWN-FINDING lines.",
}
json.dump(m, open(V + "/MANIFEST.json", "w"), indent=1)
print("wrote MANIFEST.json: claimed", sorted(CLAIMED), "n/a", [x["property_id"] for x in na])
