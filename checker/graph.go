package main

import (
	"go/ast"
	"go/types"
	"sort"

	"golang.org/x/tools/go/packages"
)

// PkgGraph is the syntactic static call graph of one package: an edge f -> g exists when
// the body of f (function literals included) mentions the function object g, either as
// the static callee of a call or as a function value.
type PkgGraph struct {
	Pkg   *packages.Package
	Funcs map[*types.Func]*FuncInfo
	Out   map[*types.Func][]*types.Func // in-package and out-of-package callees
}

func buildPkgGraph(pk *packages.Package) *PkgGraph {
	g := &PkgGraph{Pkg: pk, Funcs: map[*types.Func]*FuncInfo{}, Out: map[*types.Func][]*types.Func{}}
	for _, fi := range funcs(pk) {
		if fi.Obj != nil {
			g.Funcs[fi.Obj] = fi
		}
	}
	for obj, fi := range g.Funcs {
		if fi.Decl.Body == nil {
			continue
		}
		seen := map[*types.Func]bool{}
		ast.Inspect(fi.Decl.Body, func(n ast.Node) bool {
			var id *ast.Ident
			switch x := n.(type) {
			case *ast.Ident:
				id = x
			case *ast.SelectorExpr:
				id = x.Sel
			}
			if id == nil {
				return true
			}
			if f, ok := pk.TypesInfo.Uses[id].(*types.Func); ok {
				f = f.Origin()
				if !seen[f] {
					seen[f] = true
					g.Out[obj] = append(g.Out[obj], f)
				}
			}
			return true
		})
		sort.Slice(g.Out[obj], func(i, j int) bool { return objKey(g.Out[obj][i]) < objKey(g.Out[obj][j]) })
	}
	return g
}

// Reach returns every function object reachable from the roots (roots included); only
// in-package functions are expanded. parent gives one predecessor for path reporting.
func (g *PkgGraph) Reach(roots ...*types.Func) (set map[*types.Func]bool, parent map[*types.Func]*types.Func) {
	set = map[*types.Func]bool{}
	parent = map[*types.Func]*types.Func{}
	var q []*types.Func
	for _, r := range roots {
		if r != nil && !set[r] {
			set[r] = true
			q = append(q, r)
		}
	}
	for len(q) > 0 {
		f := q[0]
		q = q[1:]
		for _, c := range g.Out[f] {
			if !set[c] {
				set[c] = true
				parent[c] = f
				q = append(q, c)
			}
		}
	}
	return
}

// pathTo renders root -> ... -> f using parent links.
func pathTo(parent map[*types.Func]*types.Func, f *types.Func) []string {
	var p []string
	for x := f; x != nil; x = parent[x] {
		p = append([]string{shortKey(objKey(x))}, p...)
		if len(p) > 50 {
			break
		}
	}
	return p
}

// byKey finds a function of the package by its short key (e.g. "interp.Interpreter.cfg").
func (g *PkgGraph) byName(name string) *FuncInfo {
	for _, fi := range g.Funcs {
		if funcName(fi.Decl) == name {
			return fi
		}
	}
	return nil
}

// reachedDecls returns the declarations of the in-package functions of a reach set, sorted.
func (g *PkgGraph) reachedDecls(set map[*types.Func]bool) []*FuncInfo {
	var out []*FuncInfo
	for f := range set {
		if fi := g.Funcs[f]; fi != nil {
			out = append(out, fi)
		}
	}
	sort.Slice(out, func(i, j int) bool { return funcName(out[i].Decl) < funcName(out[j].Decl) })
	return out
}
