package main

import (
	"go/ast"
	"go/token"
	"go/types"

	"golang.org/x/tools/go/cfg"
	"golang.org/x/tools/go/types/typeutil"
)

// FlowGraph is the go/cfg control-flow graph of one function body, with dominators.
type FlowGraph struct {
	G    *cfg.CFG
	Info *types.Info
	dom  [][]uint64 // dom[b] = bitset of blocks dominating b
	idx  map[*cfg.Block]int
}

// noReturn reports calls that never return (panic and process exits).
func noReturn(info *types.Info, call *ast.CallExpr) bool {
	if id, ok := call.Fun.(*ast.Ident); ok {
		if b, ok := info.Uses[id].(*types.Builtin); ok && b.Name() == "panic" {
			return true
		}
	}
	if f, ok := typeutil.Callee(info, call).(*types.Func); ok && f.Pkg() != nil {
		switch f.Pkg().Path() + "." + f.Name() {
		case "os.Exit", "log.Fatal", "log.Fatalf", "log.Fatalln", "runtime.Goexit":
			return true
		}
	}
	return false
}

func buildFlow(body *ast.BlockStmt, info *types.Info) *FlowGraph {
	g := cfg.New(body, func(c *ast.CallExpr) bool { return !noReturn(info, c) })
	fg := &FlowGraph{G: g, Info: info, idx: map[*cfg.Block]int{}}
	for i, b := range g.Blocks {
		fg.idx[b] = i
	}
	n := len(g.Blocks)
	w := (n + 63) / 64
	preds := make([][]int, n)
	for i, b := range g.Blocks {
		for _, s := range b.Succs {
			preds[fg.idx[s]] = append(preds[fg.idx[s]], i)
		}
	}
	full := make([]uint64, w)
	for i := 0; i < n; i++ {
		full[i/64] |= 1 << (i % 64)
	}
	fg.dom = make([][]uint64, n)
	for i := range fg.dom {
		fg.dom[i] = append([]uint64(nil), full...)
	}
	if n > 0 {
		fg.dom[0] = make([]uint64, w)
		fg.dom[0][0] = 1
	}
	changed := true
	for changed {
		changed = false
		for i := 1; i < n; i++ {
			nd := append([]uint64(nil), full...)
			if len(preds[i]) == 0 {
				// unreachable block: dominated by everything (vacuous)
				continue
			}
			for _, p := range preds[i] {
				for k := range nd {
					nd[k] &= fg.dom[p][k]
				}
			}
			nd[i/64] |= 1 << (i % 64)
			for k := range nd {
				if nd[k] != fg.dom[i][k] {
					changed = true
					fg.dom[i] = nd
					break
				}
			}
		}
	}
	return fg
}

// locate returns the block and node index whose node is the innermost one containing n.
func (fg *FlowGraph) locate(n ast.Node) (*cfg.Block, int) {
	var bb *cfg.Block
	bi := -1
	var best token.Pos = -1
	var bestEnd token.Pos
	for _, b := range fg.G.Blocks {
		for i, x := range b.Nodes {
			if x.Pos() <= n.Pos() && n.End() <= x.End() {
				if bb == nil || (x.Pos() >= best && x.End() <= bestEnd) {
					bb, bi, best, bestEnd = b, i, x.Pos(), x.End()
				}
			}
		}
	}
	return bb, bi
}

// blockDominates reports whether every path from the entry to b passes through a.
func (fg *FlowGraph) blockDominates(a, b *cfg.Block) bool {
	ai := fg.idx[a]
	return fg.dom[fg.idx[b]][ai/64]&(1<<(ai%64)) != 0
}

// dominates reports whether node a is executed before node b on every path reaching b.
// Both must be located in the graph; ok is false otherwise.
func (fg *FlowGraph) dominates(a, b ast.Node) (res, ok bool) {
	ba, ia := fg.locate(a)
	bb, ib := fg.locate(b)
	if ba == nil || bb == nil {
		return false, false
	}
	if ba == bb {
		if ia == ib {
			// Same statement: evaluation order inside one node, a before b by position.
			return a.Pos() <= b.Pos(), true
		}
		return ia < ib, true
	}
	return fg.blockDominates(ba, bb), true
}

// reaches reports whether there is a path from (after) node a to node b.
func (fg *FlowGraph) reaches(a, b ast.Node) (res, ok bool) {
	ba, ia := fg.locate(a)
	bb, ib := fg.locate(b)
	if ba == nil || bb == nil {
		return false, false
	}
	if ba == bb && ia < ib {
		return true, true
	}
	seen := map[*cfg.Block]bool{}
	var stack []*cfg.Block
	stack = append(stack, ba.Succs...)
	for len(stack) > 0 {
		x := stack[len(stack)-1]
		stack = stack[:len(stack)-1]
		if seen[x] {
			continue
		}
		seen[x] = true
		if x == bb {
			return true, true
		}
		stack = append(stack, x.Succs...)
	}
	return false, true
}

// exitsWithout reports whether some path from the point just after node `from` reaches a
// function exit (return or fall off the end) without executing a node accepted by `via`.
// Blocks ending in a no-return call (panic) are not exits.
func (fg *FlowGraph) exitsWithout(from ast.Node, via func(ast.Node) bool) (bool, []string) {
	b0, i0 := fg.locate(from)
	if b0 == nil {
		return true, []string{"start not located"}
	}
	type item struct {
		b *cfg.Block
		i int
	}
	seen := map[*cfg.Block]bool{}
	var walk func(b *cfg.Block, i int) bool
	walk = func(b *cfg.Block, i int) bool {
		for ; i < len(b.Nodes); i++ {
			if via(b.Nodes[i]) {
				return false
			}
		}
		if len(b.Succs) == 0 {
			// exit block: is it a real exit or a no-return call?
			if len(b.Nodes) > 0 {
				if es, ok := b.Nodes[len(b.Nodes)-1].(*ast.ExprStmt); ok {
					if call, ok := es.X.(*ast.CallExpr); ok && noReturn(fg.Info, call) {
						return false
					}
				}
			}
			return true
		}
		for _, s := range b.Succs {
			if seen[s] {
				continue
			}
			seen[s] = true
			if walk(s, 0) {
				return true
			}
		}
		return false
	}
	return walk(b0, i0+1), nil
}

// calleeOf resolves the static callee of a call expression (function, method or builtin).
func calleeOf(info *types.Info, call *ast.CallExpr) types.Object {
	return typeutil.Callee(info, call)
}

// isCallTo reports whether call statically calls the object with the given key.
func isCallTo(info *types.Info, call *ast.CallExpr, keys ...string) bool {
	o := calleeOf(info, call)
	if o == nil {
		return false
	}
	k := canonKey(o.Pkg(), shortKey(objKey(o)))
	for _, want := range keys {
		if k == want {
			return true
		}
	}
	return false
}

// callsIn returns the call expressions inside n (not descending into function literals
// unless deep is set) that statically call one of keys.
func callsIn(info *types.Info, n ast.Node, deep bool, keys ...string) []*ast.CallExpr {
	var out []*ast.CallExpr
	if n == nil {
		return nil
	}
	ast.Inspect(n, func(x ast.Node) bool {
		if _, ok := x.(*ast.FuncLit); ok && !deep && x != n {
			return false
		}
		if c, ok := x.(*ast.CallExpr); ok && isCallTo(info, c, keys...) {
			out = append(out, c)
		}
		return true
	})
	return out
}

// unparen strips parentheses.
func unparen(e ast.Expr) ast.Expr {
	for {
		p, ok := e.(*ast.ParenExpr)
		if !ok {
			return e
		}
		e = p.X
	}
}

// regionFrom returns the nodes executed after node `from` (exclusive) on some path that has
// not yet passed a node accepted by `until` (the accepting node is not included).
func (fg *FlowGraph) regionFrom(from ast.Node, until func(ast.Node) bool) []ast.Node {
	b0, i0 := fg.locate(from)
	if b0 == nil {
		return nil
	}
	var out []ast.Node
	seen := map[*cfg.Block]bool{}
	var walk func(b *cfg.Block, i int)
	walk = func(b *cfg.Block, i int) {
		for ; i < len(b.Nodes); i++ {
			if until(b.Nodes[i]) {
				return
			}
			out = append(out, b.Nodes[i])
		}
		for _, s := range b.Succs {
			if !seen[s] {
				seen[s] = true
				walk(s, 0)
			}
		}
	}
	walk(b0, i0+1)
	return out
}

// prunedWalk visits the nodes of the flow graph g reachable from its entry when the branch
// conditions that atom decides (three-valued) are followed only in the decided direction.
// visit returns true to stop the walk along the current path.
func prunedWalk(g *cfg.CFG, atom func(ast.Expr) int, visit func(n ast.Node) bool) {
	seen := map[*cfg.Block]bool{}
	var walk func(b *cfg.Block)
	walk = func(b *cfg.Block) {
		if seen[b] {
			return
		}
		seen[b] = true
		for _, n := range b.Nodes {
			if visit(n) {
				return
			}
		}
		if len(b.Succs) == 2 && len(b.Nodes) > 0 {
			if cond, ok := b.Nodes[len(b.Nodes)-1].(ast.Expr); ok {
				switch evalCond(cond, atom) {
				case triTrue:
					walk(b.Succs[0])
					return
				case triFalse:
					walk(b.Succs[1])
					return
				}
			}
		}
		for _, s := range b.Succs {
			walk(s)
		}
	}
	if len(g.Blocks) > 0 {
		walk(g.Blocks[0])
	}
}

// loopBody returns the body of a for or range statement, nil for any other node.
func loopBody(n ast.Node) *ast.BlockStmt {
	switch x := n.(type) {
	case *ast.ForStmt:
		return x.Body
	case *ast.RangeStmt:
		return x.Body
	}
	return nil
}

// entryExitsWithout reports whether some path from the function entry reaches an exit (return
// or end of body) without executing a node accepted by via. Blocks ending in a no-return call
// are not exits.
func (fg *FlowGraph) entryExitsWithout(via func(ast.Node) bool) bool {
	if len(fg.G.Blocks) == 0 {
		return true
	}
	seen := map[*cfg.Block]bool{}
	var walk func(b *cfg.Block) bool
	walk = func(b *cfg.Block) bool {
		for _, n := range b.Nodes {
			if via(n) {
				return false
			}
		}
		if len(b.Succs) == 0 {
			if len(b.Nodes) > 0 {
				if es, ok := b.Nodes[len(b.Nodes)-1].(*ast.ExprStmt); ok {
					if call, ok := es.X.(*ast.CallExpr); ok && noReturn(fg.Info, call) {
						return false
					}
				}
			}
			return true
		}
		for _, s := range b.Succs {
			if seen[s] {
				continue
			}
			seen[s] = true
			if walk(s) {
				return true
			}
		}
		return false
	}
	seen[fg.G.Blocks[0]] = true
	return walk(fg.G.Blocks[0])
}
