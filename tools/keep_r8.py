#!/usr/bin/env python3
"""keep_r8.py: moves every round-8 change whose confirmation (tools/verify_seed.sh on commit 48134c7,
results under /tmp/r8/verify) succeeded from seeded/_r8_pending to seeded/Cxx-r8-N with its meta.json."""
import glob, json, os, re, shutil
V = '/verif'
kept = skipped = 0
for res in sorted(glob.glob('/tmp/r8/verify/C*-*.txt')):
    m = re.match(r'.*/(C\d\d)-(\d+)\.txt$', res)
    prop, n = m.group(1), m.group(2)
    txt = open(res).read()
    ok = all(s in txt for s in ('CLEAN=PASS', 'APPLY=OK', 'BUILD=OK', 'MUTANT=FAIL', 'SUITE missing=0'))
    sid = '%s-r8-%s' % (prop, n)
    dst = V + '/seeded/' + sid
    src = V + '/seeded/_r8_pending/%s/change%s' % (prop, n)
    if os.path.exists(dst + '/meta.json'):
        continue
    if not ok:
        print('NOT CONFIRMED', sid, re.findall(r'(CLEAN=\w+|APPLY=\w+|BUILD=\w+|MUTANT=\w+|SUITE missing=\d+)', txt)); skipped += 1
        continue
    if not os.path.isdir(src):
        print('missing source', src); continue
    hdr = txt.split('\n', 1)[0]
    place = re.search(r'place=(\S+)', hdr).group(1)
    rx = re.search(r'rx=(\S+)', hdr).group(1)
    os.makedirs(dst, exist_ok=True)
    demos = []
    for f in os.listdir(src):
        shutil.copy(src + '/' + f, dst + '/' + f)
        if f.endswith('_test.go.txt'):
            demos.append(f)
    readme = open(src + '/README.md').read() if os.path.exists(src + '/README.md') else ''
    title = readme.split('\n')[0].lstrip('# ').strip()
    mm = re.search(r'^#+[^\n]*needs[^\n]*\n(.*?)(?=^#|\Z)', readme, re.S | re.M | re.I)
    needs = ' '.join(mm.group(1).split())[:900] if mm else ''
    meta = {
        "id": sid, "property": prop, "breaks": title, "needs_to_manifest": needs,
        "demonstration": {"files": demos, "place_in": place, "run": "go test -count=1 -run '%s' ./%s" % (rx, place),
                          "note": "demo files are stored with a .txt suffix so that they are not compiled with /verif; copy them without it"},
        "confirmed": {"how": "tools/verify_seed.sh in a scratch worktree of /repo at the commit the agents worked on: demo passes on the clean tree, patch applies, go build ./... && go vet ./interp ok, demo fails with the patch, all 2191 stable_pass tests still pass",
                      "repo_head_when_confirmed": "48134c7"},
        "detected_by": "",
        "source": "independent sub-agent given only the property text and a scratch worktree",
        "round": 8,
    }
    json.dump(meta, open(dst + '/meta.json', 'w'), indent=1)
    shutil.rmtree(src)
    kept += 1
print('kept', kept, 'not confirmed', skipped)
