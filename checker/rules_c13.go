package main

import (
	"fmt"
	"go/ast"
	"go/constant"
	"go/token"
	"go/types"
	"path"
	"sort"
	"strings"

	"golang.org/x/tools/go/packages"
	"golang.org/x/tools/go/ssa"
)

func init() {
	register("C13", &propMeta{
		Level: "other",
		Explanation: "Table and effect rules of restricted mode, decided on the typed syntax of stdlib/, interp/use.go, extract/extract.go, cmd/yaegi and on the SSA of the standard-library packages the property names (os, log, fmt, flag) as reference: " +
			"R13.1 unsafe/syscall/os/exec are absent from the default table (keys, values, imports), Interpreter.binPkg is written only by New/Use/fixStdlib, the command gates the dangerous tables by their flags; " +
			"R13.2 every replacement listed in extract.restricted exists, is bound in both release tables under the name it replaces with a call-compatible type, and cannot statically reach a process exit; fixStdlib's Fatal* re-bindings likewise; " +
			"R13.3 no default binding returns or exposes the real *log.Logger; R13.4 every os environment function (slot-filled from os/env.go) is overridden in the restricted branch by a closure touching only the interpreter's env map; " +
			"R13.5 every fmt/log/flag package-level function that uses the host's stdout/stdin, std logger or CommandLine (slot-filled by SSA of the reference) is overridden per interpreter; os.Args is bound to the interpreter's args; the print builtins write to the interpreter's stdout; " +
			"R13.6 the binary-package table never aliases the caller's map.",
		Assumptions: []string{"static callees only (no interface dispatch) when deciding that a replacement cannot exit", "I/O through file descriptors 0/1/2 is a documented escape and is not decided", "sequences of environment operations are not modelled: the override closures are checked to touch only the interpreter's map"},
		Run:         runC13,
	})
	ruleText["R13.1"] = "no table of package stdlib is keyed by, refers to, or imports unsafe, syscall or os/exec; Interpreter.binPkg is stored to only by New, Use and fixStdlib; in cmd/yaegi each Use of the syscall/unsafe/unrestricted tables is guarded by its own flag"
	ruleText["R13.2"] = "each key of extract.restricted names a declaration of package stdlib bound, in both release tables, under the symbol it replaces, with an identical signature (functions) and no static call path to os.Exit, syscall.Exit, log.Fatal* or (*log.Logger).Fatal*; the values fixStdlib binds to log.Fatal* satisfy the same callee rule"
	ruleText["R13.3"] = "no function or variable bound in a default table has the real *log.Logger among its result/variable types"
	ruleText["R13.4"] = "each exported function declared in os/env.go whose static callees reach the syscall environment primitives is overridden by fixStdlib inside the not-unrestricted branch by a closure that references no object of os/syscall other than os.Expand and only Interpreter.env state"
	ruleText["R13.5"] = "each exported package-level function of fmt that uses os.Stdout/os.Stdin, of log that uses the package-level std logger, of flag that uses flag.CommandLine, when bound in the default table, is overridden by fixStdlib with a value built from the interpreter's stdin/stdout/stderr/args; os.Args is bound to &interp.args; the print builtins write to the interpreter's stdout"
	ruleText["R13.7"] = "in (*Interpreter).Use every condition guarding the call of fixStdlib mentions neither the receiver nor a local derived from it: the overrides are re-applied whenever the standard library tables are copied in again"
	ruleText["R13.6"] = "every map stored into Interpreter.binPkg[k] is created by the storing function (never the Exports argument)"
}

var forbiddenPkgs = map[string]bool{"unsafe": true, "syscall": true, "os/exec": true}

func runC13(c *Config, r *Report) {
	ic, err := loadInterp(c, true)
	if err != nil {
		r.Errorf("%v", err)
		return
	}
	restricted, err := restrictedNames(c)
	if err != nil {
		r.Errorf("%v", err)
		return
	}
	fixFi, ovs := fixStdlibOverrides(ic, r)
	ic.FixFi = fixFi
	if ovs == nil {
		return
	}
	ovMap := map[string]override{}
	for _, o := range ovs {
		ovMap[o.pkgPath+"."+o.name] = o
	}
	r.Info["fixStdlib_overrides"] = len(ovs)
	dirs := []string{c.Repo + "/stdlib"}
	tablesByRelease := map[int]map[string]map[string]binding{}
	var stdlibPk *packages.Package
	for _, rel := range []int{22, 21} {
		ov, err := releaseOverlay(c, rel, dirs)
		if err != nil {
			r.Errorf("%v", err)
			return
		}
		prog, err := c.load(loadOpts{patterns: []string{"./stdlib"}, overlay: ov})
		if err != nil {
			r.Errorf("go1.%d: %v", rel, err)
			return
		}
		pk := prog.Pkgs[0]
		if rel == 22 {
			stdlibPk = pk
		}
		bs, _ := collectBindings(pk, prog)
		tb := map[string]map[string]binding{}
		for _, b := range bs {
			if tb[b.importPath] == nil {
				tb[b.importPath] = map[string]binding{}
			}
			tb[b.importPath][b.name] = b
		}
		tablesByRelease[rel] = tb
		c13R1tables(r, prog, pk, bs, rel)
		c13R3(r, prog, pk, bs, rel)
		c13R2bindings(r, prog, pk, tb, restricted, rel)
	}
	c13R1owners(ic, r)
	c13R1cmd(c, r)
	c13Std(c, ic, r, stdlibPk, tablesByRelease[22], ovMap, restricted)
	checkBinPkgOwnership(ic, r, "R13.6")
	c13UseReapplies(ic, r)
	c13R8(ic, r)
}

// R13.1: tables of package stdlib.
func c13R1tables(r *Report, prog *Prog, pk *packages.Package, bs []binding, rel int) {
	pre := fmt.Sprintf("go1.%d/", rel)
	bad := 0
	tables := map[string]bool{}
	for _, b := range bs {
		tables[b.importPath] = true
		if forbiddenPkgs[b.importPath] {
			bad++
			r.Fail("R13.1", pre+"table/"+b.table+"/"+b.name, prog.pos(b.val.Pos()), "the default table binds "+b.importPath+"."+b.name+": a restricted script can import "+b.importPath)
			continue
		}
		// no value may refer to an object of a forbidden package
		ast.Inspect(b.val, func(n ast.Node) bool {
			id, ok := n.(*ast.Ident)
			if !ok {
				return true
			}
			if o := pk.TypesInfo.Uses[id]; o != nil && o.Pkg() != nil && forbiddenPkgs[o.Pkg().Path()] {
				if _, isPkgName := o.(*types.PkgName); !isPkgName {
					bad++
					r.Fail("R13.1", pre+"value/"+b.table+"/"+b.name, prog.pos(id.Pos()), "the default binding "+b.table+"."+b.name+" refers to "+o.Pkg().Path()+"."+o.Name()+": the forbidden package leaks through this symbol")
				}
			}
			return true
		})
	}
	for p := range pk.Imports {
		if forbiddenPkgs[p] {
			// allowed only when no table value uses it (checked above); report imports by generated files
			for i, f := range pk.Syntax {
				for _, im := range f.Imports {
					if strings.Trim(im.Path.Value, `"`) == p && strings.HasPrefix(path.Base(pk.CompiledGoFiles[i]), "go1_") {
						bad++
						r.Fail("R13.1", pre+"import/"+path.Base(pk.CompiledGoFiles[i])+"/"+p, prog.pos(im.Pos()), "generated binding file of the default table imports "+p)
					}
				}
			}
		}
	}
	if bad == 0 {
		r.Pass("R13.1", pre+"default-table", "", fmt.Sprintf("%d packages, %d bindings: none keyed by, referring to or importing unsafe, syscall, os/exec", len(tables), len(bs)))
	}
	if len(tables) < 100 {
		r.Errorf("R13.1: only %d tables found in package stdlib", len(tables))
	}
}

// R13.3: nothing hands out the real *log.Logger.
func c13R3(r *Report, prog *Prog, pk *packages.Package, bs []binding, rel int) {
	pre := fmt.Sprintf("go1.%d/", rel)
	isRealLogger := func(t types.Type) bool {
		p, ok := t.(*types.Pointer)
		if !ok {
			return false
		}
		n, ok := p.Elem().(*types.Named)
		return ok && n.Obj().Pkg() != nil && n.Obj().Pkg().Path() == "log" && n.Obj().Name() == "Logger"
	}
	n := 0
	for _, b := range bs {
		arg := valueOfArg(pk.TypesInfo, b.val)
		if arg == nil {
			continue
		}
		var obj types.Object
		switch a := arg.(type) {
		case *ast.SelectorExpr:
			obj = qualifiedObj(pk.TypesInfo, a)
		case *ast.Ident:
			obj = pk.TypesInfo.ObjectOf(a)
		case *ast.UnaryExpr:
			obj = qualifiedObj(pk.TypesInfo, a.X)
		}
		if obj == nil {
			continue
		}
		n++
		switch o := obj.(type) {
		case *types.Func:
			sig := o.Type().(*types.Signature)
			for i := 0; i < sig.Results().Len(); i++ {
				if isRealLogger(sig.Results().At(i).Type()) {
					r.Fail("R13.3", pre+b.importPath+"."+b.name, prog.pos(b.val.Pos()), "default binding "+b.importPath+"."+b.name+" returns the real *log.Logger, whose Fatal/Fatalf/Fatalln call os.Exit: a restricted script can terminate the host")
				}
			}
		case *types.Var:
			if isRealLogger(o.Type()) {
				r.Fail("R13.3", pre+b.importPath+"."+b.name, prog.pos(b.val.Pos()), "default binding "+b.importPath+"."+b.name+" is a variable of the real type *log.Logger")
			}
		}
	}
	r.Pass("R13.3", pre+"scan", "", fmt.Sprintf("%d bound functions and variables scanned for *log.Logger results", n))
}

// R13.2 (binding part): every restricted name is declared and bound under the name it replaces.
func c13R2bindings(r *Report, prog *Prog, pk *packages.Package, tb map[string]map[string]binding, restricted map[string]bool, rel int) {
	pre := fmt.Sprintf("go1.%d/", rel)
	for _, rn := range sortedKeys(restricted) {
		obj := pk.Types.Scope().Lookup(rn)
		if obj == nil {
			r.Fail("R13.2", pre+rn+"/declared", "", "extract.restricted lists "+rn+" but package stdlib does not declare it: the generator would emit a table that does not compile, or the original symbol is bound instead")
			continue
		}
		// a replacement type must not expose the value it wraps: no exported (or embedded)
		// field of the original type, and the exiting methods must be its own.
		if tn, ok := obj.(*types.TypeName); ok {
			if st, ok := tn.Type().Underlying().(*types.Struct); ok {
				leak := ""
				for i := 0; i < st.NumFields(); i++ {
					f := st.Field(i)
					ft := f.Type()
					if p, ok := ft.(*types.Pointer); ok {
						ft = p.Elem()
					}
					if n, ok := ft.(*types.Named); ok && n.Obj().Pkg() != nil && n.Obj().Pkg() != pk.Types && f.Exported() {
						leak = "field " + f.Name() + " of type " + f.Type().String() + " is exported"
						if f.Embedded() {
							leak += " (embedded: its methods, including the exiting ones, are promoted and the field itself is reachable from scripts)"
						}
					}
				}
				r.Check(leak == "", "R13.2", pre+rn+"/opaque", prog.pos(obj.Pos()), "the wrapped value is not reachable from scripts", "restricted replacement type "+rn+": "+leak+": a script reaches the real value and its Fatal/exit methods")
				for _, m := range []string{"Fatal", "Fatalf", "Fatalln"} {
					sel, _, _ := types.LookupFieldOrMethod(types.NewPointer(tn.Type()), true, pk.Types, m)
					if fn, ok := sel.(*types.Func); ok {
						own := fn.Pkg() == pk.Types
						r.Check(own, "R13.2", pre+rn+"/own:"+m, prog.pos(obj.Pos()), "defined by the replacement itself", "method "+m+" of "+rn+" is the promoted method of the wrapped value, which exits the process")
					}
				}
			}
		}
		// find the binding whose value is this identifier
		found := false
		for ip, names := range tb {
			for name, b := range names {
				uses := false
				ast.Inspect(b.val, func(n ast.Node) bool {
					if id, ok := n.(*ast.Ident); ok && pk.TypesInfo.Uses[id] == obj {
						uses = true
					}
					return true
				})
				if !uses {
					continue
				}
				found = true
				want := path.Base(ip) + name
				okName := want == rn
				// type compatibility with the original
				compat := true
				why := ""
				if imp := pk.Imports[ip]; imp != nil {
					orig := imp.Types.Scope().Lookup(name)
					switch o := obj.(type) {
					case *types.Func:
						of, ok := orig.(*types.Func)
						if !ok {
							compat, why = false, "the original is not a function"
						} else if rn != "logNew" && !types.Identical(o.Type(), of.Type()) {
							compat, why = false, fmt.Sprintf("signature %s differs from the original %s", o.Type(), of.Type())
						} else if rn == "logNew" {
							// logNew returns the wrapped logger type: parameters must be identical
							if !types.Identical(o.Type().(*types.Signature).Params(), of.Type().(*types.Signature).Params()) {
								compat, why = false, "parameters differ from log.New"
							}
						}
					}
				}
				r.Check(okName && compat, "R13.2", pre+rn+"/bound", prog.pos(b.val.Pos()), "bound as "+ip+"."+name,
					"restricted replacement "+rn+" is bound as "+ip+"."+name+" ("+why+"): it should replace "+want)
			}
		}
		if !found {
			r.Fail("R13.2", pre+rn+"/bound", prog.pos(obj.Pos()), "restricted replacement "+rn+" is declared but no table binds it: the original (exiting) symbol, or nothing, is bound instead")
		}
	}
	// the originals must not be bound: os.Exit, log.Fatal*
	for _, e := range [][2]string{{"os", "Exit"}, {"log", "Fatal"}, {"log", "Fatalf"}, {"log", "Fatalln"}} {
		b, ok := tb[e[0]][e[1]]
		if !ok {
			r.Fail("R13.2", pre+e[0]+"."+e[1]+"/replaced", "", e[0]+"."+e[1]+" is not bound at all in the default table")
			continue
		}
		arg := valueOfArg(pk.TypesInfo, b.val)
		real := false
		if se, ok := arg.(*ast.SelectorExpr); ok {
			if o := qualifiedObj(pk.TypesInfo, se); o != nil && o.Pkg() != nil && o.Pkg().Path() == e[0] {
				real = true
			}
		}
		r.Check(!real, "R13.2", pre+e[0]+"."+e[1]+"/replaced", prog.pos(b.val.Pos()), "bound to a replacement", "the default table binds the real "+e[0]+"."+e[1]+": a restricted script can terminate the host")
	}
}

// R13.1: who writes Interpreter.binPkg.
func c13R1owners(ic *IC, r *Report) {
	fld := ic.field("Interpreter", "binPkg")
	if fld == nil {
		r.Errorf("anchor not resolved: Interpreter.binPkg")
		return
	}
	allowed := map[string]bool{"New": true, "(*Interpreter).Use": true, "fixStdlib": true}
	writers := map[string]bool{}
	isBinPkgMapOf := func(v ssa.Value) bool {
		// v is interp.binPkg itself or interp.binPkg[k] (a package table)
		for _, o := range origins(v, map[ssa.Value]bool{}) {
			switch x := o.(type) {
			case *ssa.UnOp:
				if fa, ok := x.X.(*ssa.FieldAddr); ok {
					st := fa.X.Type().Underlying().(*types.Pointer).Elem().Underlying().(*types.Struct)
					if st.Field(fa.Field) == fld {
						return true
					}
				}
			case *ssa.Lookup:
				if isBinPkgField(x.X, fld) {
					return true
				}
			case *ssa.Extract:
				if lk, ok := x.Tuple.(*ssa.Lookup); ok && isBinPkgField(lk.X, fld) {
					return true
				}
			}
		}
		return false
	}
	for _, fn := range allSSAFuncs(ic.SP) {
		root := fn
		for root.Parent() != nil {
			root = root.Parent()
		}
		for _, b := range fn.Blocks {
			for _, ins := range b.Instrs {
				switch x := ins.(type) {
				case *ssa.MapUpdate:
					if isBinPkgMapOf(x.Map) {
						writers[ssaFuncName(root)] = true
					}
				case *ssa.Store:
					if fa, ok := x.Addr.(*ssa.FieldAddr); ok {
						st := fa.X.Type().Underlying().(*types.Pointer).Elem().Underlying().(*types.Struct)
						if st.Field(fa.Field) == fld {
							writers[ssaFuncName(root)] = true
						}
					}
				}
			}
		}
	}
	// a composite literal &Interpreter{binPkg: ...} in New
	for _, w := range sortedKeys(writers) {
		r.Check(allowed[w], "R13.1", "binPkg-writer/"+w, "", "constructor, Use or fixStdlib", "function "+w+" writes the binary-package table: symbols can become importable without going through Use")
	}
	if len(writers) == 0 {
		r.Errorf("R13.1: no writer of Interpreter.binPkg found")
	}
}

func isBinPkgField(v ssa.Value, fld *types.Var) bool {
	for _, o := range origins(v, map[ssa.Value]bool{}) {
		if ld, ok := o.(*ssa.UnOp); ok && ld.Op == token.MUL {
			if fa, ok := ld.X.(*ssa.FieldAddr); ok {
				st := fa.X.Type().Underlying().(*types.Pointer).Elem().Underlying().(*types.Struct)
				if st.Field(fa.Field) == fld {
					return true
				}
			}
		}
	}
	return false
}

// R13.1: cmd/yaegi gates the dangerous tables by their flags.
func c13R1cmd(c *Config, r *Report) {
	prog, err := c.load(loadOpts{patterns: []string{"./cmd/yaegi"}})
	if err != nil {
		r.Errorf("%v", err)
		return
	}
	pk := prog.Pkgs[0]
	n := 0
	for _, f := range pk.Syntax {
		for _, d := range f.Decls {
			fd, ok := d.(*ast.FuncDecl)
			if !ok || fd.Body == nil {
				continue
			}
			ast.Inspect(fd.Body, func(nd ast.Node) bool {
				call, ok := nd.(*ast.CallExpr)
				if !ok || len(call.Args) != 1 {
					return true
				}
				fo, _ := calleeOf(pk.TypesInfo, call).(*types.Func)
				if fo == nil || fo.Name() != "Use" {
					return true
				}
				se, ok := unparen(call.Args[0]).(*ast.SelectorExpr)
				if !ok {
					return true
				}
				o := pk.TypesInfo.Uses[se.Sel]
				if o == nil || o.Pkg() == nil {
					return true
				}
				pp := o.Pkg().Path()
				var kind string
				switch {
				case strings.HasSuffix(pp, "/stdlib/syscall"):
					kind = "syscall"
				case strings.HasSuffix(pp, "/stdlib/unsafe"):
					kind = "unsafe"
				case strings.HasSuffix(pp, "/stdlib/unrestricted"):
					kind = "unrestricted"
				default:
					return true
				}
				n++
				key := "cmd/" + fd.Name.Name + "/Use:" + kind
				// enclosing ifs: one must force the branch only when a flag variable whose name mentions kind is true
				guarded := false
				pathNodes := enclosingPath(fd.Body, call)
				for i, p := range pathNodes {
					ifs, ok := p.(*ast.IfStmt)
					if !ok || i+1 >= len(pathNodes) || pathNodes[i+1] != ast.Node(ifs.Body) {
						continue
					}
					res := evalCond(ifs.Cond, func(e ast.Expr) int {
						if id, ok := e.(*ast.Ident); ok && strings.Contains(strings.ToLower(id.Name), kind) {
							if v, ok := pk.TypesInfo.Uses[id].(*types.Var); ok && types.Identical(v.Type(), types.Typ[types.Bool]) {
								return triFalse
							}
						}
						return triUnknown
					})
					if res == triFalse {
						guarded = true
					}
				}
				r.Check(guarded, "R13.1", key, prog.pos(call.Pos()), "guarded by its flag", "Use("+kind+".Symbols) in "+fd.Name.Name+" is not guarded by the "+kind+" flag: the dangerous table is loaded by default")
				return true
			})
		}
	}
	if n < 3 {
		r.Errorf("R13.1: only %d gated Use calls found in cmd/yaegi", n)
	}
}

// ---- reference-driven rules (R13.2 callees, R13.4, R13.5) --------------------------------

func c13Std(c *Config, ic *IC, r *Report, stdlibPk *packages.Package, tb map[string]map[string]binding, ovMap map[string]override, restricted map[string]bool) {
	prog, err := c.load(loadOpts{patterns: []string{"./stdlib", "os", "log", "fmt", "flag"}, allSyn: true, ssa: true})
	if err != nil {
		r.Errorf("reference load: %v", err)
		return
	}
	sp := func(path string) *ssa.Package {
		for pk, s := range prog.SSAOf {
			if pk.PkgPath == path || strings.HasSuffix(pk.PkgPath, "/"+path) {
				return s
			}
		}
		return nil
	}
	osP, logP, fmtP, flagP, stdP := sp("os"), sp("log"), sp("fmt"), sp("flag"), sp("stdlib")
	if osP == nil || logP == nil || fmtP == nil || flagP == nil || stdP == nil {
		r.Errorf("reference load: SSA package missing")
		return
	}
	exits := func(f *ssa.Function) string {
		if f.Pkg == nil {
			return ""
		}
		k := f.Pkg.Pkg.Path() + "." + ssaFuncName(f)
		switch k {
		case "os.Exit", "syscall.Exit", "log.Fatal", "log.Fatalf", "log.Fatalln", "log.(*Logger).Fatal", "log.(*Logger).Fatalf", "log.(*Logger).Fatalln", "runtime.Goexit":
			return k
		}
		return ""
	}
	// static reachability into the library (no interface dispatch)
	reachExit := func(root *ssa.Function) (string, []string) {
		type item struct {
			f    *ssa.Function
			prev *item
		}
		seen := map[*ssa.Function]bool{root: true}
		q := []*item{{root, nil}}
		for len(q) > 0 {
			it := q[0]
			q = q[1:]
			if e := exits(it.f); e != "" && it.f != root {
				var p []string
				for x := it; x != nil; x = x.prev {
					p = append([]string{x.f.String()}, p...)
				}
				return e, p
			}
			for _, b := range it.f.Blocks {
				for _, ins := range b.Instrs {
					ci, ok := ins.(ssa.CallInstruction)
					if !ok {
						continue
					}
					var cs []*ssa.Function
					if f := ci.Common().StaticCallee(); f != nil {
						cs = append(cs, f)
					}
					for _, a := range ci.Common().Args {
						if f := fnOf(a); f != nil {
							cs = append(cs, f)
						}
					}
					for _, f := range cs {
						if !seen[f] {
							seen[f] = true
							q = append(q, &item{f, it})
						}
					}
				}
			}
		}
		return "", nil
	}
	// R13.2 callee rule for the restricted replacements.
	for _, rn := range sortedKeys(restricted) {
		var fns []*ssa.Function
		if f := stdP.Func(rn); f != nil {
			fns = append(fns, f)
		} else if t := stdP.Type(rn); t != nil {
			for _, tt := range []types.Type{t.Type(), types.NewPointer(t.Type())} {
				ms := prog.SSA.MethodSets.MethodSet(tt)
				for i := 0; i < ms.Len(); i++ {
					if f := prog.SSA.MethodValue(ms.At(i)); f != nil && f.Pkg == stdP {
						fns = append(fns, f)
					}
				}
			}
		}
		if len(fns) == 0 {
			continue // reported by the binding part
		}
		bad := ""
		for _, f := range fns {
			if e, p := reachExit(f); e != "" {
				bad = ssaFuncName(f) + " reaches " + e + " via " + strings.Join(p, " -> ")
			}
		}
		r.Check(bad == "", "R13.2", rn+"/cannot-exit", "", fmt.Sprintf("%d function(s), no static path to a process exit", len(fns)), "restricted replacement "+bad+": the call still terminates the host")
	}
	// fixStdlib's Fatal* values: method values of a *log.Logger: must be Panic*, not Fatal*.
	for _, nm := range []string{"Fatal", "Fatalf", "Fatalln"} {
		o, ok := ovMap["log."+nm]
		if !ok {
			r.Fail("R13.2", "fixStdlib/log."+nm, "", "fixStdlib does not re-bind log."+nm)
			continue
		}
		okv := false
		desc := types.ExprString(o.val)
		if arg := valueOfArg(ic.Info, o.val); arg != nil {
			if se, ok := arg.(*ast.SelectorExpr); ok {
				if f, ok := ic.Info.Uses[se.Sel].(*types.Func); ok {
					k := objKey(f)
					okv = strings.HasPrefix(k, "log.Logger.Panic")
					desc = k
				}
			}
		}
		r.Check(okv, "R13.2", "fixStdlib/log."+nm, ic.pos(o.stmt.Pos()), "re-bound to "+desc, "fixStdlib binds log."+nm+" to "+desc+", which is not a panicking logger method: the call terminates the host")
	}

	// ---- R13.4 environment ------------------------------------------------------------
	envPrims := map[string]bool{"syscall.Getenv": true, "syscall.Setenv": true, "syscall.Unsetenv": true, "syscall.Clearenv": true, "syscall.Environ": true}
	reachesEnv := func(root *ssa.Function) bool {
		seen := map[*ssa.Function]bool{root: true}
		q := []*ssa.Function{root}
		for len(q) > 0 {
			f := q[0]
			q = q[1:]
			if f.Pkg != nil && envPrims[f.Pkg.Pkg.Path()+"."+f.Name()] {
				return true
			}
			for _, b := range f.Blocks {
				for _, ins := range b.Instrs {
					if ci, ok := ins.(ssa.CallInstruction); ok {
						var cs []*ssa.Function
						if g := ci.Common().StaticCallee(); g != nil {
							cs = append(cs, g)
						}
						for _, a := range ci.Common().Args {
							if g := fnOf(a); g != nil {
								cs = append(cs, g)
							}
						}
						for _, g := range cs {
							if !seen[g] && g.Pkg != nil && (g.Pkg.Pkg.Path() == "os" || g.Pkg.Pkg.Path() == "syscall" || g.Pkg.Pkg.Path() == "internal/testlog" || strings.HasPrefix(g.Pkg.Pkg.Path(), "internal/")) {
								seen[g] = true
								q = append(q, g)
							}
						}
					}
				}
			}
		}
		return false
	}
	var envFuncs, otherEnv []string
	for name, m := range osP.Members {
		f, ok := m.(*ssa.Function)
		if !ok || !token.IsExported(name) || !reachesEnv(f) {
			continue
		}
		file := path.Base(prog.Fset.Position(f.Pos()).Filename)
		if file == "env.go" {
			envFuncs = append(envFuncs, name)
		} else {
			otherEnv = append(otherEnv, name)
		}
	}
	sort.Strings(envFuncs)
	sort.Strings(otherEnv)
	r.Info["os_environment_functions"] = envFuncs
	r.Info["other_os_functions_reading_the_host_environment"] = otherEnv
	if len(envFuncs) < 5 {
		r.Errorf("R13.4: slot filling found only %d environment functions in os/env.go", len(envFuncs))
	}
	envFld := ic.field("opt", "env")
	for _, name := range envFuncs {
		if _, bound := tb["os"][name]; !bound {
			continue
		}
		o, ok := ovMap["os."+name]
		key := "os." + name
		if !ok {
			r.Fail("R13.4", key, "", "os."+name+" reads or writes the host environment (reaches the syscall environment primitives) and is bound in the default table, but fixStdlib does not override it: a restricted script touches the host environment")
			continue
		}
		if !o.restrictedOnly {
			r.Fail("R13.4", key+"/branch", ic.pos(o.stmt.Pos()), "the override of os."+name+" is not inside the not-unrestricted branch")
		}
		// the override value: a closure or a local closure variable; references only interp.env and os.Expand
		var bodies []ast.Node
		if arg := valueOfArg(ic.Info, o.val); arg != nil {
			switch a := arg.(type) {
			case *ast.FuncLit:
				bodies = append(bodies, a)
			case *ast.Ident:
				// local closure variable: find its definition
				if fi := ic.F["fixStdlib"]; fi != nil {
					ast.Inspect(fi.Decl.Body, func(n ast.Node) bool {
						if as, ok := n.(*ast.AssignStmt); ok && as.Tok == token.DEFINE {
							for i, l := range as.Lhs {
								if id, ok := l.(*ast.Ident); ok && ic.Info.ObjectOf(id) == ic.Info.ObjectOf(a) && i < len(as.Rhs) {
									bodies = append(bodies, as.Rhs[i])
								}
							}
						}
						return true
					})
				}
			}
		}
		if len(bodies) == 0 {
			r.Fail("R13.4", key, ic.pos(o.stmt.Pos()), "undecided: the override of os."+name+" is not a function literal")
			continue
		}
		var leaks []string
		touchesEnv := false
		var scan func(n ast.Node)
		scanned := map[types.Object]bool{}
		scan = func(n ast.Node) {
			ast.Inspect(n, func(m ast.Node) bool {
				switch x := m.(type) {
				case *ast.SelectorExpr:
					if selField(ic.Info, x) == envFld && envFld != nil {
						touchesEnv = true
					}
					if obj := qualifiedObj(ic.Info, x); obj != nil && obj.Pkg() != nil {
						pp := obj.Pkg().Path()
						if (pp == "os" || pp == "syscall") && !(pp == "os" && obj.Name() == "Expand") {
							leaks = append(leaks, pp+"."+obj.Name())
						}
					}
				case *ast.Ident:
					// follow local closure variables (getenv)
					if v, ok := ic.Info.Uses[x].(*types.Var); ok && !scanned[v] {
						if _, isSig := v.Type().Underlying().(*types.Signature); isSig {
							scanned[v] = true
							if fi := ic.F["fixStdlib"]; fi != nil {
								ast.Inspect(fi.Decl.Body, func(k ast.Node) bool {
									if as, ok := k.(*ast.AssignStmt); ok && as.Tok == token.DEFINE {
										for i, l := range as.Lhs {
											if id, ok := l.(*ast.Ident); ok && ic.Info.ObjectOf(id) == v && i < len(as.Rhs) {
												scan(as.Rhs[i])
											}
										}
									}
									return true
								})
							}
						}
					}
				}
				return true
			})
		}
		for _, b := range bodies {
			scan(b)
		}
		// the virtual environment has one source of truth, the interpreter's env map: the
		// override reads and writes no other variable that some closure of fixStdlib assigns
		// (a listing cached beside the map goes stale when another override changes the map)
		if fi := ic.F["fixStdlib"]; fi != nil {
			written := map[types.Object]bool{}
			ast.Inspect(fi.Decl.Body, func(k ast.Node) bool {
				fl, ok := k.(*ast.FuncLit)
				if !ok {
					return true
				}
				ast.Inspect(fl.Body, func(m ast.Node) bool {
					switch x := m.(type) {
					case *ast.AssignStmt:
						for _, l := range x.Lhs {
							if id, ok := unparen(l).(*ast.Ident); ok {
								if v, ok := ic.Info.ObjectOf(id).(*types.Var); ok && v.Pos() >= fi.Decl.Body.Pos() && (v.Pos() < fl.Pos() || v.Pos() > fl.End()) {
									written[v] = true
								}
							}
						}
					case *ast.IncDecStmt:
						if id, ok := unparen(x.X).(*ast.Ident); ok {
							if v, ok := ic.Info.ObjectOf(id).(*types.Var); ok && v.Pos() >= fi.Decl.Body.Pos() && (v.Pos() < fl.Pos() || v.Pos() > fl.End()) {
								written[v] = true
							}
						}
					}
					return true
				})
				return true
			})
			var state []string
			for _, b := range bodies {
				ast.Inspect(b, func(m ast.Node) bool {
					if id, ok := m.(*ast.Ident); ok {
						if v, ok := ic.Info.Uses[id].(*types.Var); ok && written[v] {
							state = append(state, v.Name())
						}
					}
					return true
				})
			}
			state = dedupStr(state)
			r.Check(len(state) == 0, "R13.4", key+"/env-map-only", ic.pos(o.stmt.Pos()), "keeps no state beside the interpreter's env map",
				"the override of os."+name+" reads or writes "+strings.Join(state, ", ")+", a variable of fixStdlib assigned by the override closures: the virtual environment then has a second copy beside interp.env, which the other overrides do not all keep up to date (Setenv of an existing name, then Environ, shows the old value)")
		}
		r.Check(len(leaks) == 0 && touchesEnv, "R13.4", key, ic.pos(o.stmt.Pos()), "overridden by a closure over the interpreter's env map only",
			"the override of os."+name+" "+map[bool]string{true: "refers to " + strings.Join(leaks, ", "), false: "does not use the interpreter's env map"}[len(leaks) > 0]+": the host environment is reachable from a restricted script")
	}
	// New: opt.env is filled from Options.Env only when not Unrestricted - checked structurally:
	c13EnvInit(ic, r)

	// ---- R13.5 streams ----------------------------------------------------------------
	usesGlobal := func(f *ssa.Function, pkg *ssa.Package, globals map[string]bool) bool {
		seen := map[*ssa.Function]bool{f: true}
		q := []*ssa.Function{f}
		for len(q) > 0 {
			x := q[0]
			q = q[1:]
			for _, b := range x.Blocks {
				for _, ins := range b.Instrs {
					for _, op := range ins.Operands(nil) {
						if g, ok := (*op).(*ssa.Global); ok && globals[g.Pkg.Pkg.Path()+"."+g.Name()] {
							return true
						}
					}
					if ci, ok := ins.(ssa.CallInstruction); ok {
						if g := ci.Common().StaticCallee(); g != nil && g.Pkg == pkg && !seen[g] {
							seen[g] = true
							q = append(q, g)
						}
					}
				}
			}
		}
		return false
	}
	streamRule := func(pkgPath string, sp *ssa.Package, globals map[string]bool, what string, knownKeyPrefix string) {
		var names []string
		for name, m := range sp.Members {
			f, ok := m.(*ssa.Function)
			if !ok || !token.IsExported(name) || f.Signature.Recv() != nil {
				continue
			}
			if usesGlobal(f, sp, globals) {
				names = append(names, name)
			}
		}
		sort.Strings(names)
		r.Info["R13.5_"+pkgPath+"_functions_using_"+what] = names
		if len(names) == 0 {
			r.Errorf("R13.5: slot filling found no function of %s using %s", pkgPath, what)
		}
		for _, name := range names {
			if _, bound := tb[pkgPath][name]; !bound {
				continue
			}
			o, ok := ovMap[pkgPath+"."+name]
			key := pkgPath + "." + name
			if !ok {
				r.Fail("R13.5", key, "", pkgPath+"."+name+" uses the host's "+what+" and is bound in the default table, but fixStdlib does not override it: it ignores the streams/arguments given in Options")
				continue
			}
			// the override must not be the original symbol itself
			same := false
			if arg := valueOfArg(ic.Info, o.val); arg != nil {
				if obj := qualifiedObj(ic.Info, arg); obj != nil && obj.Pkg() != nil && obj.Pkg().Path() == pkgPath && obj.Name() == name {
					same = true
				}
			}
			r.Check(!same, "R13.5", key, ic.pos(o.stmt.Pos()), "overridden per interpreter", "fixStdlib re-binds "+key+" to the original symbol")
			// the override is installed whatever the streams are: no condition on the way mentions
			// the interpreter's streams or arguments (directly, through a local copy, or through
			// the result of a type assertion on them made in the if's init statement)
			if fixFi := ic.FixFi; fixFi != nil {
				streamFld := map[*types.Var]bool{}
				for _, fn := range []string{"stdin", "stdout", "stderr", "args"} {
					if v := ic.field("opt", fn); v != nil {
						streamFld[v] = true
					}
				}
				derived := map[types.Object]bool{}
				mentions := func(e ast.Node) bool {
					found := false
					ast.Inspect(e, func(q ast.Node) bool {
						switch y := q.(type) {
						case *ast.SelectorExpr:
							if v := selField(ic.Info, y); v != nil && streamFld[v] {
								found = true
							}
						case *ast.Ident:
							if derived[ic.Info.ObjectOf(y)] {
								found = true
							}
						}
						return true
					})
					return found
				}
				for pass := 0; pass < 3; pass++ {
					ast.Inspect(fixFi.Decl.Body, func(q ast.Node) bool {
						if as, ok := q.(*ast.AssignStmt); ok {
							for _, rh := range as.Rhs {
								if mentions(rh) {
									for _, l := range as.Lhs {
										if id := identOf(l); id != nil && ic.Info.ObjectOf(id) != nil {
											derived[ic.Info.ObjectOf(id)] = true
										}
									}
								}
							}
						}
						return true
					})
				}
				cond := ""
				for _, g := range pathGuards(fixFi.Decl.Body, o.stmt) {
					if mentions(g.cond) {
						cond = types.ExprString(g.cond)
					}
				}
				r.Check(cond == "", "R13.5", key+"/unconditional", ic.pos(o.stmt.Pos()), "installed whatever the streams or arguments are",
					"fixStdlib overrides "+key+" only under "+cond+": for the other interpreters the table keeps the host's function, which works on the process's "+what+" - output written to, or input read from, the host's streams instead of the ones given in Options")
			}
		}
	}
	streamRule("fmt", fmtP, map[string]bool{"os.Stdout": true, "os.Stdin": true, "os.Stderr": true}, "os.Stdout/os.Stdin", "")
	streamRule("log", logP, map[string]bool{"log.std": true}, "package-level std logger", "")
	streamRule("flag", flagP, map[string]bool{"flag.CommandLine": true}, "flag.CommandLine", "")
	// fmt overrides must use the captured interpreter streams
	c13FmtOverrides(ic, r, ovMap)
	// os.Args
	if o, ok := ovMap["os.Args"]; ok {
		argsFld := ic.field("opt", "args")
		okArgs := false
		ast.Inspect(o.val, func(n ast.Node) bool {
			if u, ok := n.(*ast.UnaryExpr); ok && u.Op == token.AND && selField(ic.Info, u.X) == argsFld && argsFld != nil {
				okArgs = true
			}
			return true
		})
		r.Check(okArgs, "R13.5", "os.Args", ic.pos(o.stmt.Pos()), "bound to &interp.args", "os.Args is not bound to the address of the interpreter's args")
	} else {
		r.Fail("R13.5", "os.Args", "", "fixStdlib does not re-bind os.Args: scripts see the host's arguments")
	}
	c13PrintBuiltins(ic, r)
	c13ArgsDefault(ic, r)
}

// c13ArgsDefault: the host's os.Args are used only when Options.Args is nil.
func c13ArgsDefault(ic *IC, r *Report) {
	fi := ic.F["New"]
	if fi == nil {
		return
	}
	argsFld := ic.field("opt", "args")
	found := false
	ast.Inspect(fi.Decl.Body, func(n ast.Node) bool {
		as, ok := n.(*ast.AssignStmt)
		if !ok || len(as.Lhs) != 1 || len(as.Rhs) != 1 || selField(ic.Info, as.Lhs[0]) != argsFld || argsFld == nil {
			return true
		}
		obj := qualifiedObj(ic.Info, as.Rhs[0])
		if obj == nil || obj.Pkg() == nil || obj.Pkg().Path() != "os" || obj.Name() != "Args" {
			return true
		}
		found = true
		// guard: nearest enclosing if whose condition is <args> == nil
		okGuard := false
		cond := ""
		p := enclosingPath(fi.Decl.Body, as)
		for i := len(p) - 1; i >= 0; i-- {
			ifs, ok := p[i].(*ast.IfStmt)
			if !ok {
				continue
			}
			cond = types.ExprString(ifs.Cond)
			if be, ok := unparen(ifs.Cond).(*ast.BinaryExpr); ok && be.Op == token.EQL {
				if id, ok := unparen(be.Y).(*ast.Ident); ok && id.Name == "nil" {
					if v := selField(ic.Info, be.X); v != nil && (v == argsFld || v.Name() == "Args") {
						okGuard = true
					}
				}
			}
			break
		}
		r.Check(okGuard, "R13.5", "New/args-default", ic.pos(as.Pos()), "the host's os.Args are used only when Options.Args is nil",
			"New falls back to the host's os.Args under the condition "+cond+" rather than only when Options.Args is nil: an explicitly empty argument list exposes (and shares the backing array of) the host's command line")
		return true
	})
	if !found {
		r.Pass("R13.5", "New/args-default", ic.pos(fi.Decl.Pos()), "New never falls back to the host's os.Args")
	}
}

func c13FmtOverrides(ic *IC, r *Report, ovMap map[string]override) {
	fi := ic.F["fixStdlib"]
	if fi == nil {
		return
	}
	// locals assigned from interp.stdin/stdout/stderr
	stream := map[types.Object]string{}
	ast.Inspect(fi.Decl.Body, func(n ast.Node) bool {
		if as, ok := n.(*ast.AssignStmt); ok && as.Tok == token.DEFINE && len(as.Lhs) == len(as.Rhs) {
			for i, l := range as.Lhs {
				if v := selField(ic.Info, as.Rhs[i]); v != nil && (v.Name() == "stdin" || v.Name() == "stdout" || v.Name() == "stderr") {
					if id, ok := l.(*ast.Ident); ok {
						stream[ic.Info.ObjectOf(id)] = v.Name()
					}
				}
			}
		}
		return true
	})
	want := map[string]string{"Print": "stdout", "Printf": "stdout", "Println": "stdout", "Scan": "stdin", "Scanf": "stdin", "Scanln": "stdin"}
	for _, name := range sortedKeys(want) {
		o, ok := ovMap["fmt."+name]
		if !ok {
			continue
		}
		used := map[string]bool{}
		hostStream := ""
		ast.Inspect(o.val, func(n ast.Node) bool {
			if id, ok := n.(*ast.Ident); ok {
				if s, ok := stream[ic.Info.ObjectOf(id)]; ok {
					used[s] = true
				}
			}
			if e, ok := n.(ast.Expr); ok {
				if v := selField(ic.Info, e); v != nil && (v.Name() == "stdin" || v.Name() == "stdout" || v.Name() == "stderr") {
					used[v.Name()] = true
				}
				if obj := qualifiedObj(ic.Info, e); obj != nil && obj.Pkg() != nil && obj.Pkg().Path() == "os" && strings.HasPrefix(obj.Name(), "Std") {
					hostStream = "os." + obj.Name()
				}
			}
			return true
		})
		r.Check(used[want[name]] && hostStream == "" && len(used) == 1, "R13.5", "fmt."+name+"/stream", ic.pos(o.stmt.Pos()), "uses the interpreter's "+want[name],
			fmt.Sprintf("the override of fmt.%s uses %v %s instead of the interpreter's %s", name, sortedKeys(used), hostStream, want[name]))
	}
}

func c13PrintBuiltins(ic *IC, r *Report) {
	stdoutFld := ic.field("opt", "stdout")
	stderrFld := ic.field("opt", "stderr")
	n := 0
	for _, name := range []string{"_print", "_println"} {
		fi := ic.F[name]
		if fi == nil {
			continue
		}
		n++
		usesOut, host := false, ""
		ast.Inspect(fi.Decl.Body, func(nd ast.Node) bool {
			if e, ok := nd.(ast.Expr); ok {
				if v := selField(ic.Info, e); v != nil && (v == stdoutFld || v == stderrFld) {
					usesOut = true
				}
				if obj := qualifiedObj(ic.Info, e); obj != nil && obj.Pkg() != nil && obj.Pkg().Path() == "os" && strings.HasPrefix(obj.Name(), "Std") {
					host = "os." + obj.Name()
				}
			}
			if c, ok := nd.(*ast.CallExpr); ok && isCallTo(ic.Info, c, "fmt.Print", "fmt.Println", "fmt.Printf") {
				host = "fmt.Print* (host stdout)"
			}
			return true
		})
		r.Check(usesOut && host == "", "R13.5", "builtin/"+name, ic.pos(fi.Decl.Pos()), "writes to the interpreter's stream", "the "+strings.TrimPrefix(name, "_")+" builtin writes to "+host+" rather than the interpreter's stream")
	}
	if n == 0 {
		r.Errorf("R13.5: generators of the print builtins not found")
	}
}

// c13EnvInit: in New, the environment map is filled from Options.Env; host values are added
// only under the Unrestricted option.
func c13EnvInit(ic *IC, r *Report) {
	fi := ic.F["New"]
	if fi == nil {
		r.Errorf("anchor not resolved: New")
		return
	}
	envFld := ic.field("opt", "env")
	stores := 0
	bad := ""
	ast.Inspect(fi.Decl.Body, func(n ast.Node) bool {
		as, ok := n.(*ast.AssignStmt)
		if !ok {
			return true
		}
		for i, l := range as.Lhs {
			ix, ok := unparen(l).(*ast.IndexExpr)
			if !ok || selField(ic.Info, ix.X) != envFld || envFld == nil {
				continue
			}
			stores++
			exprs := []ast.Expr{ix.Index}
			if i < len(as.Rhs) {
				exprs = append(exprs, as.Rhs[i])
			}
			for _, e := range exprs {
				ast.Inspect(e, func(m ast.Node) bool {
					if c, ok := m.(*ast.CallExpr); ok {
						if f, ok := calleeOf(ic.Info, c).(*types.Func); ok && f.Pkg() != nil && (f.Pkg().Path() == "os" || f.Pkg().Path() == "syscall") {
							bad = f.Pkg().Path() + "." + f.Name() + " at " + ic.pos(c.Pos())
						}
					}
					return true
				})
			}
			// the store must not be reachable when Unrestricted is set: it belongs to the else branch
			guarded := false
			pathNodes := enclosingPath(fi.Decl.Body, as)
			for j, p := range pathNodes {
				ifs, ok := p.(*ast.IfStmt)
				if !ok || j+1 >= len(pathNodes) {
					continue
				}
				res := evalCond(ifs.Cond, func(e ast.Expr) int {
					if v := selField(ic.Info, e); v != nil && strings.EqualFold(v.Name(), "unrestricted") {
						return triTrue
					}
					return triUnknown
				})
				inBody := pathNodes[j+1] == ast.Node(ifs.Body)
				inElse := ifs.Else != nil && pathNodes[j+1] == ast.Node(ifs.Else)
				if (inElse && res == triTrue) || (inBody && res == triFalse) {
					guarded = true
				}
			}
			if !guarded {
				bad = "store into the env map at " + ic.pos(as.Pos()) + " is not limited to the restricted (not Unrestricted) branch"
			}
		}
		return true
	})
	// os.Environ in New would seed the map with host values
	ast.Inspect(fi.Decl.Body, func(n ast.Node) bool {
		if c, ok := n.(*ast.CallExpr); ok && isCallTo(ic.Info, c, "os.Environ") {
			bad = "os.Environ at " + ic.pos(c.Pos())
		}
		return true
	})
	if stores == 0 {
		r.Errorf("R13.4: New does not fill the interpreter's env map (anchor not resolved)")
		return
	}
	r.Check(bad == "", "R13.4", "New/env-init", ic.pos(fi.Decl.Pos()), "the env map is filled from Options.Env only, in restricted mode", "New: "+bad+": the virtual environment is seeded with host values")
	// "key=value" entries are cut at the FIRST '=' (as os/exec and syscall do): the loop over
	// Options.Env uses SplitN(e, "=", 2), Cut, Index or IndexByte, never a Last* search or an
	// unbounded Split (round-5 seed: A=b=c became A=b -> c)
	first, last := "", ""
	ast.Inspect(fi.Decl.Body, func(n ast.Node) bool {
		rs, ok := n.(*ast.RangeStmt)
		if !ok {
			return true
		}
		if v := selField(ic.Info, rs.X); v == nil || v.Name() != "Env" {
			return true
		}
		for _, c := range allCalls(rs.Body) {
			f, ok := calleeOf(ic.Info, c).(*types.Func)
			if !ok || f.Pkg() == nil || f.Pkg().Path() != "strings" {
				continue
			}
			switch f.Name() {
			case "SplitN":
				if len(c.Args) == 3 {
					if tv, ok := ic.Info.Types[c.Args[2]]; ok && tv.Value != nil && tv.Value.ExactString() == "2" {
						first = "strings.SplitN(_, _, 2)"
					} else {
						last = "strings.SplitN with a limit other than 2 at " + ic.pos(c.Pos())
					}
				}
			case "Cut", "Index", "IndexByte", "IndexRune":
				first = "strings." + f.Name()
			case "LastIndex", "LastIndexByte", "Split", "SplitAfter", "Fields":
				last = "strings." + f.Name() + " at " + ic.pos(c.Pos())
			}
		}
		return true
	})
	r.Check(first != "" && last == "", "R13.4", "New/env-entries-cut-at-the-first-separator", ic.pos(fi.Decl.Pos()), "entries of Options.Env are cut at the first '=' ("+first+")",
		"New splits the entries of Options.Env with "+last+first+" instead of cutting them at the first '=': for A=b=c the script sees the variable A=b (value c) or loses part of the value, so the virtual environment is not the one given in Options.Env")
}

var _ = constant.MakeBool

// c13UseReapplies: Use copies the symbols it is given over the interpreter's tables, also over
// entries that fixStdlib had replaced (streams, environment, exit functions). Every Use that
// is given the standard library must therefore re-apply fixStdlib: the condition guarding the
// call depends on the Exports argument only, never on the state of the interpreter ("already
// done" flags skip the re-application while the copy loop has just restored the raw symbols).
func c13UseReapplies(ic *IC, r *Report) {
	fi := ic.fn(r, "Interpreter.Use")
	if fi == nil {
		return
	}
	info := ic.Info
	var recv types.Object
	if fi.Decl.Recv != nil && len(fi.Decl.Recv.List) > 0 && len(fi.Decl.Recv.List[0].Names) > 0 {
		recv = info.ObjectOf(fi.Decl.Recv.List[0].Names[0])
	}
	// locals derived from the receiver's state
	tainted := map[types.Object]bool{}
	mentionsRecv := func(e ast.Node) bool {
		found := false
		ast.Inspect(e, func(m ast.Node) bool {
			if id, ok := m.(*ast.Ident); ok {
				if o := info.ObjectOf(id); o != nil && (o == recv || tainted[o]) {
					found = true
				}
			}
			return true
		})
		return found
	}
	for round := 0; round < 3; round++ {
		ast.Inspect(fi.Decl.Body, func(m ast.Node) bool {
			as, ok := m.(*ast.AssignStmt)
			if !ok {
				return true
			}
			for _, rhs := range as.Rhs {
				if mentionsRecv(rhs) {
					for _, l := range as.Lhs {
						if id, ok := l.(*ast.Ident); ok && info.ObjectOf(id) != nil {
							tainted[info.ObjectOf(id)] = true
						}
					}
				}
			}
			return true
		})
	}
	calls := callsIn(info, fi.Decl.Body, false, "interp.fixStdlib")
	if len(calls) == 0 {
		r.Errorf("R13.7: (*Interpreter).Use does not call fixStdlib")
		return
	}
	for i, c := range calls {
		var bad []string
		for _, g := range pathGuards(fi.Decl.Body, c) {
			if mentionsRecv(g.cond) {
				bad = append(bad, types.ExprString(g.cond))
			}
		}
		r.Check(len(bad) == 0, "R13.7", fmt.Sprintf("Interpreter.Use/fixStdlib-call#%d/depends-on-the-argument-only", i+1), ic.pos(c.Pos()), "the re-application of the per-interpreter overrides depends on the Exports argument only",
			"(*Interpreter).Use re-applies fixStdlib only under "+strings.Join(bad, " and ")+", a condition on the interpreter's own state: a second Use of the standard library copies the raw fmt/log/os symbols over the virtualised ones and then skips the re-application, so the script reaches the host's streams, arguments, environment and the real os.Exit")
	}
}

func init() {
	ruleText["R13.8"] = "in the import case of the global pass, an import that resolves neither to a bound package nor to a source package always ends in an error: the pass's error is assigned a non-nil error in that branch and nothing clears it - in restricted mode unsafe, syscall and os/exec are not bound, so every import form of them is rejected"
}

// c13R8: round-5 seed accepted blank imports of "standard library" paths without binding.
func c13R8(ic *IC, r *Report) {
	info := ic.Info
	fi := ic.fn(r, "Interpreter.gta")
	if fi == nil {
		return
	}
	spec, _ := ic.Pk.Types.Scope().Lookup("importSpec").(*types.Const)
	var clause *ast.CaseClause
	ast.Inspect(fi.Decl.Body, func(m ast.Node) bool {
		if cc, ok := m.(*ast.CaseClause); ok {
			for _, l := range cc.List {
				if id := identOf(l); id != nil && spec != nil && info.ObjectOf(id) == spec {
					clause = cc
				}
			}
		}
		return true
	})
	if clause == nil {
		r.Errorf("R13.8: the importSpec case of gta was not found")
		return
	}
	// the chain: if binPkg ... else if importSrc(...) == nil ... else { err = ... }
	var chain *ast.IfStmt
	for _, s := range clause.Body {
		if ifs, ok := s.(*ast.IfStmt); ok && len(callsIn(info, ifs, true, "interp.Interpreter.importSrc")) > 0 {
			chain = ifs
		}
	}
	if chain == nil {
		r.Errorf("R13.8: the if chain of the importSpec case calling importSrc was not found")
		return
	}
	var clears []string
	ast.Inspect(chain, func(m ast.Node) bool {
		as, ok := m.(*ast.AssignStmt)
		if !ok || len(as.Lhs) != len(as.Rhs) {
			return true
		}
		for i, l := range as.Lhs {
			if t := info.TypeOf(l); t != nil && types.TypeString(t, nil) == "error" {
				if id := identOf(as.Rhs[i]); id != nil && id.Name == "nil" {
					clears = append(clears, ic.pos(as.Pos()))
				}
			}
		}
		return true
	})
	// every branch that is reached after importSrc failed (the else branches following the
	// condition calling importSrc) assigns an error built by a call
	okElse := true
	where := chain.Pos()
	var walk func(ifs *ast.IfStmt, after bool)
	walk = func(ifs *ast.IfStmt, after bool) {
		callsHere := len(callsIn(info, ifs.Cond, true, "interp.Interpreter.importSrc")) > 0
		if ifs.Init != nil && len(callsIn(info, ifs.Init, true, "interp.Interpreter.importSrc")) > 0 {
			callsHere = true
		}
		if after {
			// a branch taken when the source import failed: accepting it needs a reviewed reason
			okElse = false
			where = ifs.Pos()
		}
		switch e := ifs.Else.(type) {
		case *ast.IfStmt:
			walk(e, after || callsHere)
		case *ast.BlockStmt:
			if after || callsHere {
				assigns := false
				for _, s := range e.List {
					if as, ok := s.(*ast.AssignStmt); ok && len(as.Rhs) == 1 {
						if _, isCall := unparen(as.Rhs[0]).(*ast.CallExpr); isCall {
							for _, l := range as.Lhs {
								if t := info.TypeOf(l); t != nil && types.TypeString(t, nil) == "error" {
									assigns = true
								}
							}
						}
					}
				}
				if !assigns {
					okElse = false
					where = e.Pos()
				}
			}
		case nil:
			if after || callsHere {
				okElse = false
			}
		}
	}
	walk(chain, false)
	r.Check(len(clears) == 0 && okElse, "R13.8", "gta/import-of-an-unbound-package-is-an-error", ic.pos(where), "a failed import always ends in an error",
		"the importSpec case of gta does not turn every failed import into an error (error cleared at "+strings.Join(clears, ", ")+"; a branch after the failed source import accepts the statement): in restricted mode import _ \"unsafe\", import _ \"syscall\" or import _ \"os/exec\" is accepted instead of rejected")
}
