package main

import (
	"fmt"
	"go/ast"
	"go/constant"
	"go/token"
	"go/types"
	"sort"
	"strings"

	"golang.org/x/tools/go/ssa"
)

func init() {
	register("C09", &propMeta{
		Level: "other",
		Explanation: "Structural necessary conditions of cancellation, decided on the current source of package interp: " +
			"R09.1 every loop of the execution function that invokes a bltn is gated by frame.runid()==Interpreter.runid() on the frame it executes; " +
			"R09.2 every frame constructor sets id/anc/root/done and every newFrame call inherits the id of its ancestor (SSA provenance); " +
			"R09.3 every blocking reflect Recv/Send is installed only when cancellable channel operations are off, and every reflect.Select includes the frame's done case and stops (returns nil) when that case is chosen; " +
			"R09.4 every exported ...WithContext watcher selects on ctx.Done(), calls stop and returns ctx.Err(); R09.5 stop advances the run id atomically and closes done, run installs done in the frame; " +
			"R09.6 the cancellable/blocking mode is not chosen at closure-generation time. Latency and host functions that block are not decided.",
		Assumptions: []string{"reflect.Select / TryRecv / TrySend semantics are trusted", "promptness is not a static fact; only the presence of the gates on every path is decided"},
		Run:         runC09,
	})
	ruleText["R09.1"] = "in the execution function (the one looping over bltn calls on a *frame), each such loop's condition is false whenever frame.runid() != Interpreter.runid(), for the frame passed to the bltn"
	ruleText["R09.2"] = "each newFrame(anc, n, id) call with a non-nil ancestor passes id = anc.runid() for the same anc (never the interpreter's current id: a frame created after stop() would belong to the next run); functions building a frame composite set id, anc, root and done"
	ruleText["R09.7"] = "the re-synchronisation frame.setrunid(Interpreter.runid()) is not reachable from a goroutine started by a context watcher: it takes the id current at that moment, so a stop() delivered before it (cancellation while the program is still being compiled) is erased and the program runs to completion after the *WithContext call has returned"
	ruleText["R09.3"] = "blocking reflect.Value.Recv/Send are unreachable when Interpreter.cancelChan is true; each reflect.Select call has a case loaded from frame.done and the closure returns nil when the chosen index is the position of that case"
	ruleText["R09.4"] = "each exported method taking a context.Context that evaluates in a goroutine selects on ctx.Done(), calls (*Interpreter).stop in that case and returns ctx.Err()"
	ruleText["R09.5"] = "(*Interpreter).stop atomically advances Interpreter.id and closes Interpreter.done; (*Interpreter).run stores a receive SelectCase on Interpreter.done into frame.done"
	ruleText["R09.8"] = "= R08.1 on the generators whose run-time closures create frames (newFrame) or host callbacks (reflect.MakeFunc): they write no captured generator variable - a frame or callback kept from one execution of the statement to the next keeps the run id and done case of an earlier evaluation"
	ruleText["R09.6"] = "a mode field of Interpreter assigned by public entry points after construction (cancelChan) is not read at closure-generation time to select which closure is installed"
}

func runC09(c *Config, r *Report) {
	ic, err := loadInterp(c, true)
	if err != nil {
		r.Errorf("%v", err)
		return
	}
	c09R1(ic, r, "R09.1")
	c09R2(ic, r)
	c09R3(ic, r)
	c09R4(ic, r)
	c09R5(ic, r)
	c09R6(ic, r)
	c09R7(ic, r)
	watcherPreparation(ic, r, "R09.4")
	c09R8(ic, r)
	c09R9(ic, r)
}

// c09R8: = R08.1 on the generators that create frames or host callbacks. Round-6 seed: the
// wrapper of a top-level function handed to the host was built once per call site, so the
// callback kept the frame (run id, done case) of the first evaluation that executed the site.
func c09R8(ic *IC, r *Report) {
	makers := map[string]bool{}
	for name, fi := range ic.F {
		if fi.Decl.Body != nil && len(callsIn(ic.Info, fi.Decl.Body, true, "interp.newFrame", "reflect.MakeFunc")) > 0 {
			makers[name] = true
		}
	}
	sub := newReport("C08")
	c08R1(ic, sub)
	n := 0
	for _, o := range sub.Obls {
		if o.Rule != "R08.1" {
			continue
		}
		name := o.Key
		if i := strings.Index(name, "/"); i >= 0 {
			name = name[:i]
		}
		if !makers[name] {
			continue
		}
		o.Rule = "R09.8"
		if !o.OK {
			o.Detail += "; here the closure creates frames or host callbacks: what it keeps from one execution to the next carries the run id and the done case of the evaluation that executed it first, and the code reached through it is not stopped by the cancellation of a later evaluation"
		}
		r.add(o)
		n++
	}
	r.Errors = append(r.Errors, sub.Errors...)
	if n < 3 {
		r.Errorf("R09.8: only %d generators creating frames or host callbacks found", n)
	}
}

// c09R7: re-synchronisation of the root frame id reachable from watcher goroutines.
func c09R7(ic *IC, r *Report) {
	g := buildSGraph(ic.SP)
	// functions that re-synchronise: call frame.setrunid with an argument from Interpreter.runid
	resync := map[*ssa.Function]bool{}
	for _, fn := range g.Funcs {
		for _, b := range fn.Blocks {
			for _, ins := range b.Instrs {
				call, ok := ins.(*ssa.Call)
				if !ok || staticCalleeName(&call.Call) != "interp.(*frame).setrunid" {
					continue
				}
				for _, o := range origins(call.Call.Args[1], map[ssa.Value]bool{}) {
					if oc, ok := o.(*ssa.Call); ok && staticCalleeName(&oc.Call) == "interp.(*Interpreter).runid" {
						resync[fn] = true
					}
				}
			}
		}
	}
	if len(resync) == 0 {
		r.Errorf("R09.7: no re-synchronisation frame.setrunid(Interpreter.runid()) found (Execute expected)")
		return
	}
	n := 0
	for cl, parent := range g.GoRoots {
		top := parent
		for top.Parent() != nil {
			top = top.Parent()
		}
		if top.Signature.Recv() == nil || !token.IsExported(top.Name()) {
			continue
		}
		// only watchers: the method calls stop
		callsStop := false
		for _, e := range g.Out[top] {
			if ssaFuncName(e.To) == "(*Interpreter).stop" {
				callsStop = true
			}
		}
		if !callsStop {
			continue
		}
		n++
		set, parentOf := g.reachSet(true, cl)
		hit := false
		var fs []*ssa.Function
		for f := range set {
			if resync[f] {
				fs = append(fs, f)
			}
		}
		sort.Slice(fs, func(i, j int) bool { return fs[i].Name() < fs[j].Name() })
		if len(fs) > 0 {
			hit = true
			var sites []string
			for _, f := range fs {
				sites = append(sites, strings.Join(ssaPath(parentOf, f), " -> "))
			}
			r.Fail("R09.7", top.Name()+"/resync", ic.pos(fs[0].Pos()),
				"the goroutine started by "+top.Name()+" reaches a re-synchronisation of the root frame's id with the interpreter's id current at that moment ("+strings.Join(sites, "; ")+"): a cancellation delivered earlier (while compiling) is erased and the program runs after "+top.Name()+" returned ctx.Err()")
		}
		if !hit {
			r.Pass("R09.7", top.Name()+"/resync", ic.pos(cl.Pos()), "no re-synchronisation of the run id after the goroutine started")
		}
	}
	if n < 2 {
		r.Errorf("R09.7: %d watcher goroutines found", n)
	}
}

func isNamed(t types.Type, name string) bool {
	if p, ok := t.(*types.Pointer); ok {
		t = p.Elem()
	}
	n, ok := t.(*types.Named)
	return ok && n.Obj().Name() == name
}

// execLoops finds the function(s) that loop calling a value of type bltn on a *frame.
type execLoop struct {
	fn   *FuncInfo
	loop *ast.ForStmt
	call *ast.CallExpr // exec(f)
}

func findExecLoops(ic *IC) []execLoop {
	var out []execLoop
	for _, fi := range ic.F {
		if fi.Decl.Body == nil {
			continue
		}
		ast.Inspect(fi.Decl.Body, func(n ast.Node) bool {
			fs, ok := n.(*ast.ForStmt)
			if !ok {
				return true
			}
			ownNodes(fs.Body, func(m ast.Node) bool {
				call, ok := m.(*ast.CallExpr)
				if !ok || len(call.Args) != 1 {
					return true
				}
				if id, ok := unparen(call.Fun).(*ast.Ident); ok {
					if v, ok := ic.Info.Uses[id].(*types.Var); ok && isNamed(v.Type(), "bltn") && isNamed(ic.Info.TypeOf(call.Args[0]), "frame") {
						out = append(out, execLoop{fi, fs, call})
					}
				}
				return true
			})
			return true
		})
	}
	return out
}

func c09R1(ic *IC, r *Report, rule string) {
	loops := findExecLoops(ic)
	if len(loops) == 0 {
		r.Errorf("anchor not resolved: no loop invoking a bltn on a *frame found (execution loop)")
		return
	}
	n := map[string]int{}
	for _, l := range loops {
		name := funcName(l.fn.Decl)
		n[name]++
		key := fmt.Sprintf("%s/loop#%d", name, n[name])
		pos := ic.pos(l.loop.Pos())
		if l.loop.Cond == nil {
			r.Fail(rule, key, pos, "execution loop without condition: interpreted code keeps running after cancellation")
			continue
		}
		frameObj := ic.Info.ObjectOf(rootIdent(l.call.Args[0]))
		gate := false
		atom := func(e ast.Expr) int {
			be, ok := e.(*ast.BinaryExpr)
			if !ok || (be.Op != token.EQL && be.Op != token.NEQ) {
				return triUnknown
			}
			side := func(x ast.Expr) string {
				c, ok := unparen(x).(*ast.CallExpr)
				if !ok {
					return ""
				}
				f, _ := calleeOf(ic.Info, c).(*types.Func)
				if f == nil {
					return ""
				}
				k := canonKey(f.Pkg(), shortKey(objKey(f)))
				if k == "interp.frame.runid" {
					se := unparen(c.Fun).(*ast.SelectorExpr)
					if id := rootIdent(se.X); id != nil && ic.Info.ObjectOf(id) == frameObj {
						return "frame"
					}
					return "otherframe"
				}
				if k == "interp.Interpreter.runid" {
					return "interp"
				}
				return ""
			}
			a, b := side(be.X), side(be.Y)
			if (a == "frame" && b == "interp") || (a == "interp" && b == "frame") {
				gate = true
				// ids differ:
				if be.Op == token.EQL {
					return triFalse
				}
				return triTrue
			}
			return triUnknown
		}
		res := evalCond(l.loop.Cond, atom)
		r.Check(gate && res == triFalse, rule, key, pos, "loop stops as soon as the frame's run id differs from the interpreter's",
			"the loop condition "+types.ExprString(l.loop.Cond)+" does not become false when frame.runid() != Interpreter.runid() for the executed frame: a cancelled evaluation keeps executing statements")
	}
	if len(loops) < 2 {
		r.Note("%s: %d execution loop(s) found (plain and debugger loops expected)", rule, len(loops))
	}
}

// ssaIndex maps syntax nodes of functions to their SSA function.
func ssaIndex(ic *IC) map[ast.Node]*ssa.Function {
	m := map[ast.Node]*ssa.Function{}
	for _, f := range allSSAFuncs(ic.SP) {
		if s := f.Syntax(); s != nil {
			m[s] = f
		}
	}
	return m
}

func staticCalleeName(c *ssa.CallCommon) string {
	if f := c.StaticCallee(); f != nil {
		if f.Pkg != nil {
			return shortKey(f.Pkg.Pkg.Path()) + "." + ssaFuncName(f)
		}
		return f.String()
	}
	return ""
}

func c09R2(ic *IC, r *Report) {
	newFrame := ic.ssaFunc("newFrame")
	if newFrame == nil {
		r.Errorf("anchor not resolved: newFrame")
		return
	}
	cnt := map[string]int{}
	sites := 0
	for _, fn := range allSSAFuncs(ic.SP) {
		for _, b := range fn.Blocks {
			for _, ins := range b.Instrs {
				call, ok := ins.(*ssa.Call)
				if !ok || call.Call.StaticCallee() != newFrame {
					continue
				}
				owner := ssaFuncName(fn)
				cnt[owner]++
				key := fmt.Sprintf("%s/newFrame#%d", owner, cnt[owner])
				pos := ic.pos(call.Pos())
				anc, id := call.Call.Args[0], call.Call.Args[2]
				if c, ok := anc.(*ssa.Const); ok && c.IsNil() {
					// a root frame: only the constructor of the interpreter may create one
					r.Check(owner == "New", "R09.2", key, pos, "root frame created by the interpreter constructor", "a root frame (nil ancestor) is created outside New")
					continue
				}
				sites++
				okID := false
				var why string
				for _, o := range origins(id, map[ssa.Value]bool{}) {
					oc, isCall := o.(*ssa.Call)
					if !isCall {
						why = "id is " + describeValue(o)
						okID = false
						break
					}
					switch staticCalleeName(&oc.Call) {
					case "interp.(*frame).runid":
						recv := oc.Call.Args[0]
						if sameValue(recv, anc) {
							okID = true
						} else {
							okID = false
							why = "id is the run id of " + describeValue(recv) + " but the ancestor is " + describeValue(anc)
						}
					case "interp.(*Interpreter).runid":
						// The interpreter's current id is not the ancestor's: a frame created after
						// stop() would belong to the next run and keep executing.
						okID = false
						why = "id is the interpreter's current run id, not the run id of the ancestor " + describeValue(anc)
					default:
						okID = false
						why = "id is " + describeValue(o)
					}
					if !okID {
						break
					}
				}
				r.Check(okID, "R09.2", key, pos, "id inherited from the ancestor frame",
					"newFrame does not inherit the run id of its ancestor ("+why+"): the callee/goroutine frame is not stopped by the cancellation that stops its caller")
			}
		}
	}
	if sites < 3 {
		r.Errorf("R09.2: only %d newFrame call sites with an ancestor found", sites)
	}
	// Constructors: functions building a frame composite literal.
	frameT := ic.Pk.Types.Scope().Lookup("frame")
	if frameT == nil {
		r.Errorf("anchor not resolved: type frame")
		return
	}
	ctors := 0
	for _, fi := range ic.F {
		if fi.Decl.Body == nil {
			continue
		}
		var lit *ast.CompositeLit
		ast.Inspect(fi.Decl.Body, func(n ast.Node) bool {
			if cl, ok := n.(*ast.CompositeLit); ok && types.Identical(ic.Info.TypeOf(cl), frameT.Type()) {
				lit = cl
			}
			return true
		})
		if lit == nil {
			continue
		}
		ctors++
		set := map[string]string{}
		for _, e := range lit.Elts {
			if kv, ok := e.(*ast.KeyValueExpr); ok {
				if id, ok := kv.Key.(*ast.Ident); ok {
					set[id.Name] = types.ExprString(kv.Value)
				}
			}
		}
		ast.Inspect(fi.Decl.Body, func(n ast.Node) bool {
			if as, ok := n.(*ast.AssignStmt); ok {
				for i, l := range as.Lhs {
					if v := selField(ic.Info, l); v != nil && fieldKey(ic.Pk.Types, v) == "frame."+v.Name() && i < len(as.Rhs) {
						if _, ok := set[v.Name()]; !ok {
							set[v.Name()] = types.ExprString(as.Rhs[i])
						}
					}
				}
			}
			return true
		})
		name := funcName(fi.Decl)
		for _, fld := range []string{"id", "anc", "root", "done", "data"} {
			_, ok := set[fld]
			r.Check(ok, "R09.2", name+"/sets:"+fld, ic.pos(lit.Pos()), "frame."+fld+" = "+set[fld],
				"frame constructor "+name+" leaves frame."+fld+" unset: "+map[string]string{
					"id": "the new frame is never in the current run", "anc": "the call chain is cut", "root": "globals unreachable",
					"done": "channel operations of the new frame cannot be cancelled", "data": "no slots"}[fld])
		}
		// done must be inherited from the ancestor / the cloned frame.
		if d, ok := set["done"]; ok {
			r.Check(strings.HasSuffix(d, ".done"), "R09.2", name+"/inherits:done", ic.pos(lit.Pos()), "done inherited: "+d,
				"frame.done of the new frame is "+d+", not the done case of its ancestor")
		}
	}
	if ctors < 2 {
		r.Errorf("R09.2: %d frame constructors found, expected newFrame and clone", ctors)
	}
}

// sameValue compares two SSA values up to loads of the same cell / same free variable.
func sameValue(a, b ssa.Value) bool {
	if a == b {
		return true
	}
	ua, ok1 := a.(*ssa.UnOp)
	ub, ok2 := b.(*ssa.UnOp)
	if ok1 && ok2 && ua.Op == token.MUL && ub.Op == token.MUL {
		return sameValue(ua.X, ub.X)
	}
	return false
}

// ---- R09.3 -----------------------------------------------------------------------------

func c09R3(ic *IC, r *Report) {
	cancelFld := ic.field("Interpreter", "cancelChan")
	doneFld := ic.field("frame", "done")
	if cancelFld == nil || doneFld == nil {
		r.Errorf("anchor not resolved: Interpreter.cancelChan / frame.done")
		return
	}
	// (a) blocking Recv/Send.
	cnt := map[string]int{}
	blocking := 0
	for _, fi := range ic.F {
		if fi.Decl.Body == nil {
			continue
		}
		name := funcName(fi.Decl)
		ast.Inspect(fi.Decl.Body, func(n ast.Node) bool {
			call, ok := n.(*ast.CallExpr)
			if !ok {
				return true
			}
			f, _ := calleeOf(ic.Info, call).(*types.Func)
			if f == nil {
				return true
			}
			k := objKey(f)
			if k != "reflect.Value.Recv" && k != "reflect.Value.Send" {
				return true
			}
			blocking++
			cnt[name+k]++
			key := fmt.Sprintf("%s/%s#%d", name, strings.TrimPrefix(k, "reflect.Value."), cnt[name+k])
			guarded := false
			path := enclosingPath(fi.Decl.Body, call)
			for i, p := range path {
				ifs, ok := p.(*ast.IfStmt)
				if !ok || i+1 >= len(path) {
					continue
				}
				res := evalCond(ifs.Cond, func(e ast.Expr) int {
					if selField(ic.Info, e) == cancelFld {
						return triTrue
					}
					return triUnknown
				})
				inBody := path[i+1] == ast.Node(ifs.Body)
				inElse := ifs.Else != nil && path[i+1] == ast.Node(ifs.Else)
				if (inBody && res == triFalse) || (inElse && res == triTrue) {
					guarded = true
				}
			}
			r.Check(guarded, "R09.3", key, ic.pos(call.Pos()), "installed only when cancellable channel operations are disabled",
				"blocking "+k+" is reachable when Interpreter.cancelChan is true: a goroutine blocked here never observes the cancellation")
			return true
		})
	}
	if blocking == 0 {
		r.Note("R09.3: no blocking reflect Recv/Send call in package interp")
	}
	// (b)(c) reflect.Select sites.
	idx := ssaIndex(ic)
	_ = idx
	selects := 0
	roles := map[string]bool{}
	scnt := map[string]int{}
	for _, fn := range allSSAFuncs(ic.SP) {
		for _, b := range fn.Blocks {
			for _, ins := range b.Instrs {
				call, ok := ins.(*ssa.Call)
				if !ok || staticCalleeName(&call.Call) != "reflect.Select" {
					continue
				}
				selects++
				owner := ssaFuncName(fn)
				root := owner
				if i := strings.Index(root, "$"); i > 0 {
					root = root[:i]
				}
				roles[root] = true
				scnt[root]++
				key := fmt.Sprintf("%s/Select#%d", root, scnt[root])
				pos := ic.pos(call.Pos())
				donePos, found := selectDoneIndex(call.Call.Args[0], doneFld)
				if !found {
					r.Fail("R09.3", key, pos, "no case of this reflect.Select is loaded from frame.done: the operation cannot be interrupted by a cancellation")
					continue
				}
				// (c) return nil when chosen == donePos.
				stops := false
				var chosen ssa.Value
				for _, ref := range *call.Referrers() {
					if ex, ok := ref.(*ssa.Extract); ok && ex.Index == 0 {
						chosen = ex
					}
				}
				if chosen != nil {
					for _, v := range flowsTo(chosen) {
						for _, ref := range *v.Referrers() {
							be, ok := ref.(*ssa.BinOp)
							if !ok || be.Op != token.EQL {
								continue
							}
							other := be.Y
							if be.Y == v {
								other = be.X
							}
							if !sameIndex(other, donePos) {
								continue
							}
							for _, u := range *be.Referrers() {
								if iff, ok := u.(*ssa.If); ok {
									tb := iff.Block().Succs[0]
									if returnsNil(tb) {
										stops = true
									}
								}
							}
						}
					}
				}
				r.Check(stops, "R09.3", key, pos, "done case at position "+describeIndex(donePos)+"; the closure stops when it is chosen",
					"the closure does not return nil (stop) when the chosen case is the done case (position "+describeIndex(donePos)+"): after a cancellation the goroutine continues with a zero value")
			}
		}
	}
	for _, role := range []struct{ action, what string }{{"aRecv", "receive"}, {"aSend", "send"}, {"aSelect", "select"}, {"aRange", "range over channel"}} {
		_ = role
	}
	if selects < 4 {
		r.Errorf("R09.3: only %d reflect.Select sites found; receive, receive-with-ok, send, range-over-channel and select are expected", selects)
	}
	r.Info["select_sites"] = selects
	r.Info["select_generators"] = sortedKeys(roles)
}

// flowsTo returns v and the values it is copied to through local cells (store then load).
func flowsTo(v ssa.Value) []ssa.Value {
	out := []ssa.Value{v}
	for _, ref := range *v.Referrers() {
		if st, ok := ref.(*ssa.Store); ok && st.Val == v {
			if al, ok := st.Addr.(*ssa.Alloc); ok {
				for _, r2 := range *al.Referrers() {
					if ld, ok := r2.(*ssa.UnOp); ok && ld.Op == token.MUL {
						out = append(out, ld)
					}
				}
			}
		}
	}
	return out
}

func returnsNil(b *ssa.BasicBlock) bool {
	for i := 0; i < 4 && b != nil; i++ {
		if len(b.Instrs) == 0 {
			return false
		}
		last := b.Instrs[len(b.Instrs)-1]
		if ret, ok := last.(*ssa.Return); ok {
			if len(ret.Results) == 1 {
				if c, ok := ret.Results[0].(*ssa.Const); ok && c.IsNil() {
					return true
				}
			}
			return false
		}
		if j, ok := last.(*ssa.Jump); ok {
			b = j.Block().Succs[0]
			// only straight-line blocks
			if len(b.Preds) != 1 {
				// a join block: accept when it immediately returns nil
			}
			continue
		}
		return false
	}
	return false
}

func describeIndex(v ssa.Value) string {
	if c, ok := v.(*ssa.Const); ok {
		return c.Value.ExactString()
	}
	return describeValue(v)
}

func sameIndex(a, b ssa.Value) bool {
	ca, ok1 := a.(*ssa.Const)
	cb, ok2 := b.(*ssa.Const)
	if ok1 && ok2 && ca.Value != nil && cb.Value != nil {
		return constant.Compare(ca.Value, token.EQL, cb.Value)
	}
	return sameValue(a, b)
}

// selectDoneIndex finds, among the element stores of the slice passed to reflect.Select,
// the one whose value is loaded from frame.done, and returns its index value.
func selectDoneIndex(arg ssa.Value, doneFld *types.Var) (ssa.Value, bool) {
	// arg is a Slice of an Alloc'd array, or a MakeSlice (possibly through a local cell).
	var bases []ssa.Value
	for _, o := range origins(arg, map[ssa.Value]bool{}) {
		switch x := o.(type) {
		case *ssa.Slice:
			bases = append(bases, x.X)
		default:
			bases = append(bases, o)
		}
	}
	isDone := func(v ssa.Value) bool {
		for _, o := range origins(v, map[ssa.Value]bool{}) {
			if ld, ok := o.(*ssa.UnOp); ok && ld.Op == token.MUL {
				if fa, ok := ld.X.(*ssa.FieldAddr); ok {
					st := fa.X.Type().Underlying().(*types.Pointer).Elem().Underlying().(*types.Struct)
					if st.Field(fa.Field) == doneFld {
						return true
					}
				}
			}
		}
		return false
	}
	for _, base := range bases {
		refs := base.Referrers()
		if refs == nil {
			continue
		}
		for _, ref := range *refs {
			ia, ok := ref.(*ssa.IndexAddr)
			if !ok {
				continue
			}
			for _, r2 := range *ia.Referrers() {
				if st, ok := r2.(*ssa.Store); ok && st.Addr == ia && isDone(st.Val) {
					return ia.Index, true
				}
			}
		}
	}
	return nil, false
}

// ---- R09.4 / R09.5 / R09.6 ---------------------------------------------------------------

func c09R4(ic *IC, r *Report) {
	n := 0
	var names []string
	delegates := map[string]string{}
	verified := map[string]bool{}
	for _, name := range sortedKeys(ic.F) {
		fi := ic.F[name]
		if fi.Decl.Body == nil || !fi.Decl.Name.IsExported() || fi.Decl.Recv == nil || !strings.HasPrefix(name, "Interpreter.") {
			continue
		}
		var ctx *types.Var
		for _, p := range fi.Decl.Type.Params.List {
			if t := ic.Info.TypeOf(p.Type); t != nil && types.TypeString(t, nil) == "context.Context" && len(p.Names) > 0 {
				ctx, _ = ic.Info.Defs[p.Names[0]].(*types.Var)
			}
		}
		if ctx == nil {
			continue
		}
		hasGo := false
		ownNodes(fi.Decl.Body, func(m ast.Node) bool {
			if _, ok := m.(*ast.GoStmt); ok {
				hasGo = true
			}
			return true
		})
		if !hasGo {
			continue
		}
		n++
		names = append(names, name)
		okWatch := false
		why := "no select statement with a case receiving from ctx.Done()"
		ownNodes(fi.Decl.Body, func(m ast.Node) bool {
			sel, ok := m.(*ast.SelectStmt)
			if !ok {
				return true
			}
			for _, cc := range sel.Body.List {
				cl := cc.(*ast.CommClause)
				if cl.Comm == nil {
					continue
				}
				isDone := false
				ast.Inspect(cl.Comm, func(x ast.Node) bool {
					if c, ok := x.(*ast.CallExpr); ok && isCallTo(ic.Info, c, "context.Context.Done") {
						if id := rootIdent(unparen(c.Fun).(*ast.SelectorExpr).X); id != nil && ic.Info.ObjectOf(id) == ctx {
							isDone = true
						}
					}
					return true
				})
				if !isDone {
					continue
				}
				stops, retErr := false, false
				blocks := ""
				for _, s := range cl.Body {
					ast.Inspect(s, func(x ast.Node) bool {
						switch y := x.(type) {
						case *ast.UnaryExpr:
							if y.Op == token.ARROW {
								blocks = "a channel receive (" + types.ExprString(y) + ")"
							}
						case *ast.SelectStmt:
							blocks = "a select statement"
						case *ast.CallExpr:
							if f, ok := calleeOf(ic.Info, y).(*types.Func); ok && f.Pkg() != nil && f.Pkg().Path() == "sync" && (f.Name() == "Wait" || f.Name() == "Lock") {
								blocks = "sync." + f.Name()
							}
						}
						return true
					})
				}
				for _, s := range cl.Body {
					ast.Inspect(s, func(x ast.Node) bool {
						if c, ok := x.(*ast.CallExpr); ok && isCallTo(ic.Info, c, "interp.Interpreter.stop") {
							stops = true
						}
						if rs, ok := x.(*ast.ReturnStmt); ok {
							for _, res := range rs.Results {
								if c, ok := unparen(res).(*ast.CallExpr); ok && isCallTo(ic.Info, c, "context.Context.Err") {
									retErr = true
								}
							}
						}
						return true
					})
				}
				switch {
				case !stops:
					why = "the ctx.Done() case does not call (*Interpreter).stop"
				case !retErr:
					why = "the ctx.Done() case does not return ctx.Err()"
				case blocks != "":
					why = "the ctx.Done() case waits on " + blocks + " before returning: when the evaluation goroutine is blocked in compiled code (wg.Wait, mutex, sleep) the call does not return the context's error promptly, possibly never"
				default:
					okWatch = true
				}
			}
			return true
		})
		if !okWatch {
			// Delegation: the context is handed to another context-taking evaluation method.
			ast.Inspect(fi.Decl.Body, func(m ast.Node) bool {
				c, ok := m.(*ast.CallExpr)
				if !ok {
					return true
				}
				f, _ := calleeOf(ic.Info, c).(*types.Func)
				if f == nil || f.Pkg() != ic.Pk.Types || !f.Exported() || f == fi.Obj {
					return true
				}
				for _, a := range c.Args {
					if id, ok := unparen(a).(*ast.Ident); ok && ic.Info.ObjectOf(id) == ctx {
						delegates[name] = "Interpreter." + f.Name()
					}
				}
				return true
			})
			if delegates[name] != "" {
				continue
			}
		}
		// no evaluation outside the watcher: a return placed before the evaluation goroutine is
		// started must not evaluate anything itself (round-5 seed: ctx.Done() == nil delegated to
		// the context-less sibling, whose channel operations are generated non-cancellable for good)
		{
			var goPos token.Pos = token.NoPos
			ownNodes(fi.Decl.Body, func(m ast.Node) bool {
				if g, ok := m.(*ast.GoStmt); ok && (goPos == token.NoPos || g.Pos() < goPos) {
					goPos = g.Pos()
				}
				return true
			})
			bad := ""
			ownNodes(fi.Decl.Body, func(m ast.Node) bool {
				rs, ok := m.(*ast.ReturnStmt)
				if !ok || rs.Pos() > goPos {
					return true
				}
				for _, res := range rs.Results {
					for _, c := range allCalls(res) {
						if f, ok := calleeOf(ic.Info, c).(*types.Func); ok && f.Pkg() == ic.Pk.Types {
							if sg := f.Type().(*types.Signature); sg.Recv() != nil && isNamedPtr(sg.Recv().Type(), "Interpreter") {
								bad = f.Name() + " at " + ic.pos(c.Pos())
							}
						}
					}
				}
				return true
			})
			r.Check(bad == "", "R09.4", name+"/evaluates-only-under-the-watcher", ic.pos(fi.Decl.Pos()), "every evaluation started by the entry point is watched",
				name+" returns the result of "+bad+" before its watcher goroutine is set up: that evaluation runs without cancellation support (the cancellable mode is fixed when the closures are generated, so functions loaded this way can never be interrupted in a channel operation, even by a later cancellable evaluation)")
		}
		verified[name] = okWatch
		r.Check(okWatch, "R09.4", name+"/watcher", ic.pos(fi.Decl.Pos()), "select on ctx.Done() -> stop() -> return ctx.Err()", name+": "+why)
	}
	for _, name := range sortedKeys(delegates) {
		to := delegates[name]
		r.Check(verified[to], "R09.4", name+"/watcher", ic.pos(ic.F[name].Decl.Pos()), "delegates the context to "+to, name+" hands its context to "+to+", which is not a verified watcher")
	}
	if n < 2 {
		r.Errorf("R09.4: only %d exported context-taking evaluation methods found", n)
	}
	r.Info["watchers"] = names
}

func c09R5(ic *IC, r *Report) {
	stop := ic.fn(r, "Interpreter.stop")
	run := ic.fn(r, "Interpreter.run")
	if stop == nil || run == nil {
		return
	}
	idFld := ic.field("Interpreter", "id")
	doneI := ic.field("Interpreter", "done")
	doneF := ic.field("frame", "done")
	adv, closes := false, false
	var advNode, closeNode ast.Node
	// locals of stop assigned from the done field (done := interp.done)
	doneLocals := map[types.Object]bool{}
	ast.Inspect(stop.Decl.Body, func(n ast.Node) bool {
		if as, ok := n.(*ast.AssignStmt); ok && len(as.Lhs) == len(as.Rhs) {
			for i, l := range as.Lhs {
				if id, ok := l.(*ast.Ident); ok && selField(ic.Info, as.Rhs[i]) == doneI {
					doneLocals[ic.Info.ObjectOf(id)] = true
				}
			}
		}
		return true
	})
	ast.Inspect(stop.Decl.Body, func(n ast.Node) bool {
		c, ok := n.(*ast.CallExpr)
		if !ok {
			return true
		}
		if isCallTo(ic.Info, c, "sync/atomic.AddUint64") && len(c.Args) == 2 {
			if u, ok := unparen(c.Args[0]).(*ast.UnaryExpr); ok && u.Op == token.AND && selField(ic.Info, u.X) == idFld {
				if tv, ok := ic.Info.Types[c.Args[1]]; ok && tv.Value != nil && constant.Sign(tv.Value) > 0 {
					adv = true
					advNode = c
				}
			}
		}
		if id, ok := unparen(c.Fun).(*ast.Ident); ok {
			if b, ok := ic.Info.Uses[id].(*types.Builtin); ok && b.Name() == "close" && len(c.Args) == 1 {
				isDone := selField(ic.Info, c.Args[0]) == doneI
				if aid, ok := unparen(c.Args[0]).(*ast.Ident); ok && doneLocals[ic.Info.ObjectOf(aid)] {
					isDone = true
				}
				if isDone {
					closes = true
					closeNode = c
				}
			}
		}
		return true
	})
	r.Check(adv, "R09.5", "stop/advances-id", ic.pos(stop.Decl.Pos()), "atomic.AddUint64(&interp.id, k>0)", "(*Interpreter).stop does not atomically advance Interpreter.id: running loops are not stopped")
	r.Check(closes, "R09.5", "stop/closes-done", ic.pos(stop.Decl.Pos()), "close(interp.done)", "(*Interpreter).stop does not close Interpreter.done: blocked channel operations are not released")
	if adv && closes {
		fg := buildFlow(stop.Decl.Body, ic.Info)
		d, ok := fg.dominates(advNode, closeNode)
		r.Check(ok && d, "R09.5", "stop/order", ic.pos(closeNode.Pos()), "the run id is advanced before the done channel is closed",
			"(*Interpreter).stop closes Interpreter.done before advancing Interpreter.id: a goroutine released from a blocking channel operation by the close returns to a caller whose loop still sees equal run ids and keeps executing statements until the id is advanced")
	}
	// run: f.done = reflect.SelectCase{Dir: SelectRecv, Chan: reflect.ValueOf(interp.done)} (through a local).
	installs := false
	locals := map[types.Object]ast.Expr{}
	ast.Inspect(run.Decl.Body, func(n ast.Node) bool {
		if as, ok := n.(*ast.AssignStmt); ok && len(as.Lhs) == len(as.Rhs) {
			for i, l := range as.Lhs {
				if id, ok := l.(*ast.Ident); ok {
					locals[ic.Info.ObjectOf(id)] = as.Rhs[i]
				}
			}
		}
		return true
	})
	fromDone := func(e ast.Expr) bool {
		for i := 0; i < 3; i++ {
			if id, ok := unparen(e).(*ast.Ident); ok {
				if x, ok := locals[ic.Info.ObjectOf(id)]; ok {
					e = x
					continue
				}
			}
			break
		}
		found := false
		ast.Inspect(e, func(n ast.Node) bool {
			if x, ok := n.(ast.Expr); ok && selField(ic.Info, x) == doneI {
				found = true
			}
			return true
		})
		return found
	}
	var installAt *ast.AssignStmt
	ast.Inspect(run.Decl.Body, func(n ast.Node) bool {
		as, ok := n.(*ast.AssignStmt)
		if !ok {
			return true
		}
		for i, l := range as.Lhs {
			if selField(ic.Info, l) != doneF || i >= len(as.Rhs) {
				continue
			}
			cl, ok := unparen(as.Rhs[i]).(*ast.CompositeLit)
			if !ok {
				continue
			}
			dirOK, chanOK := false, false
			for _, e := range cl.Elts {
				kv, ok := e.(*ast.KeyValueExpr)
				if !ok {
					continue
				}
				switch kv.Key.(*ast.Ident).Name {
				case "Dir":
					if se, ok := unparen(kv.Value).(*ast.SelectorExpr); ok {
						if c, ok := ic.Info.Uses[se.Sel].(*types.Const); ok && objKey(c) == "reflect.SelectRecv" {
							dirOK = true
						}
					}
				case "Chan":
					chanOK = fromDone(kv.Value)
				}
			}
			installs = dirOK && chanOK
			if installs {
				installAt = as
			}
		}
		return true
	})
	// the case is installed for every run: the statement dominates the execution of the code
	// (the root frame persists across evaluations and would otherwise keep the channel of the
	// interpreter's first evaluation, closed for good after one cancellation, or never closed
	// by the cancellation of a later one)
	if installAt != nil {
		fg := buildFlow(run.Decl.Body, ic.Info)
		for _, rc := range callsIn(ic.Info, run.Decl.Body, false, "interp.runCfg") {
			d, ok := fg.dominates(installAt, rc)
			r.Check(ok && d, "R09.5", "run/installs-done/for-every-run", ic.pos(installAt.Pos()), "the installation dominates the execution",
				"(*Interpreter).run installs the cancellation case of the frame only on some paths (the statement at "+ic.pos(installAt.Pos())+" does not dominate runCfg): a frame that already carries a case, i.e. the persistent root frame after the interpreter's first evaluation, keeps the old channel, so goroutines blocked in channel operations during a later evaluation are never woken by its cancellation")
		}
	}
	r.Check(installs, "R09.5", "run/installs-done", ic.pos(run.Decl.Pos()), "f.done = SelectCase{Dir: SelectRecv, Chan: ValueOf(interp.done)}",
		"(*Interpreter).run does not install a receive case on Interpreter.done into frame.done: channel operations of this run do not race the cancellation channel")
	// the *WithContext entry points create a fresh done channel before starting
	for _, name := range sortedKeys(ic.F) {
		fi := ic.F[name]
		if !strings.HasPrefix(name, "Interpreter.") || fi.Decl.Body == nil {
			continue
		}
		callsStop := len(callsIn(ic.Info, fi.Decl.Body, false, "interp.Interpreter.stop")) > 0
		if !callsStop {
			continue
		}
		var mk ast.Node
		var goStmt ast.Node
		ownNodes(fi.Decl.Body, func(n ast.Node) bool {
			if as, ok := n.(*ast.AssignStmt); ok {
				for i, l := range as.Lhs {
					if selField(ic.Info, l) == doneI && i < len(as.Rhs) {
						if c, ok := unparen(as.Rhs[i]).(*ast.CallExpr); ok {
							if id, ok := c.Fun.(*ast.Ident); ok && id.Name == "make" {
								mk = as
							}
						}
					}
				}
			}
			if g, ok := n.(*ast.GoStmt); ok && goStmt == nil {
				goStmt = g
			}
			return true
		})
		okFresh := false
		if mk != nil && goStmt != nil {
			fg := buildFlow(fi.Decl.Body, ic.Info)
			okFresh, _ = fg.dominates(mk, goStmt)
		}
		r.Check(okFresh, "R09.5", name+"/fresh-done", ic.pos(fi.Decl.Pos()), "a fresh done channel is installed before the evaluation goroutine starts",
			name+" calls stop() but does not install a fresh Interpreter.done before starting the evaluation: stop would close an already closed channel or cancel nothing")
	}
}

func c09R6(ic *IC, r *Report) {
	// Mode fields: boolean fields of Interpreter assigned inside exported methods other than the constructor.
	st := ic.Pk.Types.Scope().Lookup("Interpreter").Type().Underlying().(*types.Struct)
	modes := map[*types.Var]bool{}
	for _, name := range sortedKeys(ic.F) {
		fi := ic.F[name]
		if fi.Decl.Body == nil || fi.Decl.Recv == nil || !fi.Decl.Name.IsExported() || !strings.HasPrefix(name, "Interpreter.") {
			continue
		}
		ast.Inspect(fi.Decl.Body, func(n ast.Node) bool {
			if as, ok := n.(*ast.AssignStmt); ok {
				for _, l := range as.Lhs {
					if v := selField(ic.Info, l); v != nil && types.Identical(v.Type(), types.Typ[types.Bool]) {
						for i := 0; i < st.NumFields(); i++ {
							if st.Field(i) == v {
								modes[v] = true
							}
						}
					}
				}
			}
			return true
		})
	}
	if len(modes) == 0 {
		r.Pass("R09.6", "no-mode-field", "", "no boolean field of Interpreter is assigned by an exported method")
		return
	}
	// Reads in generator scope: inside a function that installs a run-time closure, outside of it.
	cnt := 0
	for _, name := range sortedKeys(ic.F) {
		fi := ic.F[name]
		if fi.Decl.Body == nil {
			continue
		}
		hasClosure := false
		ast.Inspect(fi.Decl.Body, func(n ast.Node) bool {
			if fl, ok := n.(*ast.FuncLit); ok && isFrameClosure(ic.Info, fl) {
				hasClosure = true
			}
			return true
		})
		if !hasClosure {
			continue
		}
		reported := map[string]bool{}
		var walk func(n ast.Node) bool
		walk = func(n ast.Node) bool {
			if fl, ok := n.(*ast.FuncLit); ok && isFrameClosure(ic.Info, fl) {
				return false
			}
			if e, ok := n.(ast.Expr); ok {
				if v := selField(ic.Info, e); v != nil && modes[v] && !reported[v.Name()] {
					reported[v.Name()] = true
					cnt++
					r.Fail("R09.6", name+"/reads:"+v.Name(), ic.pos(e.Pos()),
						"generator "+name+" reads Interpreter."+v.Name()+" when the closure is generated; the field is set by each *WithContext entry point, but the closure is generated once and reused: code compiled by Eval and run by EvalWithContext keeps the blocking channel operation")
				}
			}
			return true
		}
		ast.Inspect(fi.Decl.Body, walk)
	}
	if cnt == 0 {
		r.Pass("R09.6", "mode-read-at-run-time", "", fmt.Sprintf("%d mode field(s) of Interpreter; none is read in generator scope", len(modes)))
	}
}

func init() {
	ruleText["R09.9"] = "a panic in a goroutine of a cancelled evaluation cannot reach the top of the goroutine: every go statement of the run-time closures of the call generators starts a function literal whose first statement defers a guard - a function calling recover() that panics again only under a comparison of the frame's run id with the interpreter's - because after a cancellation the deferred functions of the script, which could have recovered, are not run any more and an unrecovered panic at the top of a goroutine terminates the host process"
}

// c09R9: found through the round-6 report on C09 (E4). for { func() { defer func() { recover() }();
// panic("boom") }() } in three goroutines: cancelling the evaluation killed the host program
// (panic: boom ... created by interp.call.func9).
func c09R9(ic *IC, r *Report) {
	info := ic.Info
	// guards: in-package functions returning a literal that calls recover() and re-panics under a run id test
	isGuardLit := func(fl *ast.FuncLit) bool {
		rec, guarded := false, false
		ast.Inspect(fl.Body, func(q ast.Node) bool {
			c, ok := q.(*ast.CallExpr)
			if !ok {
				return true
			}
			id := identOf(c.Fun)
			if id == nil {
				return true
			}
			if id.Name == "recover" {
				rec = true
			}
			if id.Name == "panic" {
				for _, g := range pathGuards(fl.Body, c) {
					if len(callsIn(info, g.cond, true, "interp.frame.runid")) > 0 && len(callsIn(info, g.cond, true, "interp.Interpreter.runid")) > 0 {
						guarded = true
					}
				}
			}
			return true
		})
		return rec && guarded
	}
	guardFn := map[types.Object]bool{}
	for f, hd := range ic.G.Funcs {
		if hd.Decl.Body == nil {
			continue
		}
		ast.Inspect(hd.Decl.Body, func(q ast.Node) bool {
			if rs, ok := q.(*ast.ReturnStmt); ok && len(rs.Results) == 1 {
				if fl, ok := unparen(rs.Results[0]).(*ast.FuncLit); ok && isGuardLit(fl) {
					guardFn[f] = true
				}
			}
			return true
		})
	}
	n := 0
	for _, name := range sortedKeys(ic.F) {
		fi := ic.F[name]
		if fi.Decl.Body == nil {
			continue
		}
		k := 0
		for _, cl := range (&c02ctx{ic: ic}).closuresOf(fi) {
			ast.Inspect(cl.Body, func(q ast.Node) bool {
				gs, ok := q.(*ast.GoStmt)
				if !ok {
					return true
				}
				k++
				n++
				why := ""
				fl, isLit := unparen(gs.Call.Fun).(*ast.FuncLit)
				switch {
				case !isLit:
					why = "it starts " + types.ExprString(gs.Call.Fun) + " directly, with no deferred guard"
				case len(fl.Body.List) == 0:
					why = "the function literal it starts is empty"
				default:
					ds, ok := fl.Body.List[0].(*ast.DeferStmt)
					okGuard := false
					if ok {
						if dl, ok := unparen(ds.Call.Fun).(*ast.FuncLit); ok && isGuardLit(dl) {
							okGuard = true
						}
						if inner, ok := unparen(ds.Call.Fun).(*ast.CallExpr); ok {
							if o := calleeOf(info, inner); o != nil && guardFn[o] {
								okGuard = true
							}
						}
					}
					if !okGuard {
						why = "the first statement of the function literal it starts does not defer a guard (recover, and panic again only when the run is current)"
					}
				}
				r.Check(why == "", "R09.9", fmt.Sprintf("%s/go#%d/panic-of-a-cancelled-run-stops-in-the-goroutine", name, k), ic.pos(gs.Pos()), "the goroutine defers the guard first",
					"the go statement at "+ic.pos(gs.Pos())+" of "+name+": "+why+". After a cancellation the deferred functions of the script are not run any more, so a panic they would have recovered propagates to the top of the goroutine and terminates the host program (for { func() { defer func() { recover() }(); panic(\"boom\") }() } in a goroutine, then cancel)")
				return true
			})
		}
	}
	if n < 2 {
		r.Errorf("R09.9: only %d go statements found in the run-time closures of package interp (call and callBin expected)", n)
	}
}
