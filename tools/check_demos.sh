#!/bin/bash
# check_demos.sh [jobs]: runs the demonstration of every kept seeded change on the CLEAN current
# tree (scratch worktrees of /repo at HEAD + uncommitted changes are NOT included). Every demo must
# pass: they encode behaviour the property requires, so they double as regression tests for the
# "fix:" commits. Not part of any registered command.
export GOFLAGS=-mod=mod GOPROXY=off GOSUMDB=off GOTOOLCHAIN=local
J=${1:-6}
SRC=${2:-HEAD}
ls -d /verif/seeded/[A-Z]*/ | xargs -n1 basename > /tmp/cd.list
split -n l/$J /tmp/cd.list /tmp/cd.part.
for part in /tmp/cd.part.*; do
(
  W=$(mktemp -d /tmp/cd.XXXXXX); rmdir $W
  git -C /repo worktree add -q --detach $W $SRC || exit 2
  [ -n "$PATCH" ] && git -C $W apply $PATCH
  for id in $(cat $part); do
    d=/verif/seeded/$id
    place=$(python3 -c "import json;print(json.load(open('$d/meta.json'))['demonstration']['place_in'])")
    run=$(python3 -c "import json;print(json.load(open('$d/meta.json'))['demonstration']['run'])")
    rx=$(echo "$run" | sed -n "s/.*-run '\([^']*\)'.*/\1/p")
    files=""
    for f in $d/*_test.go.txt; do [ -e "$f" ] || continue; b=$(basename ${f%.txt}); cp $f $W/$place/$b; files="$files $W/$place/$b"; done
    if [ -z "$files" ]; then echo "$id NO-DEMO"; continue; fi
    if (cd $W && timeout 600 go test -count=1 -vet=off -run "$rx" ./$place > $W.out 2>&1); then echo "$id PASS"; else echo "$id FAIL: $(grep -m2 -- '--- FAIL\|panic:\|cannot\|undefined' $W.out | tr '\n' ' ' | cut -c1-200)"; fi
    rm -f $files $W.out
  done
  git -C /repo worktree remove --force $W
) &
done
wait
rm -f /tmp/cd.list /tmp/cd.part.*
