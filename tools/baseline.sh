#!/bin/sh
# Runs the repository's baseline suite in /repo (or $1) and compares with BASELINE.json stable_pass.
D=${1:-/repo}
export GOFLAGS=-mod=mod GOPROXY=off GOSUMDB=off GOTOOLCHAIN=local
T=$(mktemp -d /tmp/bl.XXXXXX)
( cd $D && go test -mod=mod -json -vet=off -count=1 -timeout 25m ./... > $T/run.json 2>$T/err.txt )
python3 - $T/run.json <<'PY'
import json,sys
b=json.load(open('/root/.vp/BASELINE.json'))
stable=set(b['stable_pass'])
passed=set()
for l in open(sys.argv[1]):
    try: d=json.loads(l)
    except Exception: continue
    if d.get('Action')=='pass' and d.get('Test'):
        passed.add(d['Package']+'::'+d['Test'])
miss=sorted(stable-passed)
print('stable',len(stable),'passed',len(passed),'missing',len(miss))
for m in miss[:40]: print('  MISSING',m)
PY
rm -rf $T
