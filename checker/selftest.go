package main

import (
	"fmt"
	"os"
	"path/filepath"
	"regexp"
	"sort"
	"strings"
	"sync"
)

// mutant is one in-memory edit of the repository used to test the checker both ways.
// It is applied through packages.Config.Overlay: /repo is never modified.
type mutant struct {
	Name   string
	Prop   string
	File   string // relative to the repository root
	Old    string // must occur exactly once in File
	New    string
	Rule   string // rule expected to fire ("" for a benign refactoring: nothing new may fire)
	Key    string // substring expected in the key of the new violation
	Benign bool
	More   [][2]string // further (old, new) replacements in the same file
	Also   [][3]string // further (file, old, new) replacements in other files
	Rename [][3]string // (file, old identifier, new identifier): every whole-word occurrence is replaced
}

var mutants []mutant

func addMutants(ms ...mutant) { mutants = append(mutants, ms...) }

type selfResult struct {
	m      mutant
	ok     bool
	detail string
}

func failingKeys(r *Report) map[string]string {
	out := map[string]string{}
	for _, o := range r.Obls {
		if !o.OK {
			out[o.Rule+" "+o.Key] = o.Detail
		}
	}
	for i, e := range r.Errors {
		out[fmt.Sprintf("check-failure %d", i)] = e
	}
	return out
}

// runMutant applies m in an overlay and reports whether the expected rule fires.
func runMutant(c *Config, m mutant, base map[string]string) selfResult {
	path := filepath.Join(c.Repo, m.File)
	b, err := os.ReadFile(path)
	if err != nil {
		return selfResult{m, false, err.Error()}
	}
	src := string(b)
	if m.Old == "" && len(m.Rename) > 0 {
		// rename-only mutant
	} else if n := strings.Count(src, m.Old); n != 1 {
		return selfResult{m, false, fmt.Sprintf("mutant does not apply: pattern occurs %d times in %s (the repository changed; update the mutant)", n, m.File)}
	}
	if m.Old != "" {
		src = strings.Replace(src, m.Old, m.New, 1)
	}
	for _, e := range m.More {
		if n := strings.Count(src, e[0]); n != 1 {
			return selfResult{m, false, fmt.Sprintf("mutant does not apply: extra pattern occurs %d times in %s", n, m.File)}
		}
		src = strings.Replace(src, e[0], e[1], 1)
	}
	ov := map[string][]byte{path: []byte(src)}
	for _, e := range m.Also {
		p2 := filepath.Join(c.Repo, e[0])
		var cur string
		if b2, ok := ov[p2]; ok {
			cur = string(b2)
		} else {
			b2, err := os.ReadFile(p2)
			if err != nil {
				return selfResult{m, false, err.Error()}
			}
			cur = string(b2)
		}
		if n := strings.Count(cur, e[1]); n != 1 {
			return selfResult{m, false, fmt.Sprintf("mutant does not apply: pattern occurs %d times in %s", n, e[0])}
		}
		ov[p2] = []byte(strings.Replace(cur, e[1], e[2], 1))
	}
	for _, e := range m.Rename {
		p2 := filepath.Join(c.Repo, e[0])
		var cur string
		if b2, ok := ov[p2]; ok {
			cur = string(b2)
		} else {
			b2, err := os.ReadFile(p2)
			if err != nil {
				return selfResult{m, false, err.Error()}
			}
			cur = string(b2)
		}
		re := regexp.MustCompile(`\b` + regexp.QuoteMeta(e[1]) + `\b`)
		if !re.MatchString(cur) {
			return selfResult{m, false, "rename does not apply: " + e[1] + " not found in " + e[0]}
		}
		ov[p2] = []byte(re.ReplaceAllString(cur, e[2]))
	}
	mc := &Config{Repo: c.Repo, Verif: c.Verif, Tier: "quick", Quiet: true, Overlay: ov}
	r := runProp(mc, m.Prop)
	got := failingKeys(r)
	var fresh []string
	for k := range got {
		if _, ok := base[k]; !ok {
			fresh = append(fresh, k)
		}
	}
	sort.Strings(fresh)
	if m.Benign {
		if len(fresh) == 0 {
			return selfResult{m, true, "silent"}
		}
		return selfResult{m, false, "benign refactoring raised: " + strings.Join(fresh, "; ") + " :: " + got[fresh[0]]}
	}
	for _, k := range fresh {
		if strings.HasPrefix(k, m.Rule+" ") && strings.Contains(k, m.Key) {
			return selfResult{m, true, "killed by " + k}
		}
	}
	if len(fresh) > 0 {
		return selfResult{m, false, "expected " + m.Rule + " [" + m.Key + "], got: " + strings.Join(fresh, "; ") + " :: " + got[fresh[0]]}
	}
	if os.Getenv("YVERIF_DEBUG") != "" {
		for _, o := range r.Obls {
			if o.Rule == m.Rule {
				fmt.Printf("    [%s] %v %s %s\n", o.Key, o.OK, o.Pos, o.Detail)
			}
		}
	}
	return selfResult{m, false, "survived: no new violation"}
}

func selftest(c *Config, only string) int {
	byProp := map[string][]mutant{}
	for _, m := range mutants {
		if on := os.Getenv("YVERIF_ONLY"); on != "" && m.Name != on {
			continue
		}
		if only == "" || m.Prop == only {
			byProp[m.Prop] = append(byProp[m.Prop], m)
		}
	}
	var ids []string
	for id := range byProp {
		ids = append(ids, id)
	}
	sort.Strings(ids)
	exit := 0
	total, okN := 0, 0
	for _, id := range ids {
		bc := &Config{Repo: c.Repo, Verif: c.Verif, Tier: "quick", Quiet: true}
		base := failingKeys(runProp(bc, id))
		ms := byProp[id]
		res := make([]selfResult, len(ms))
		var wg sync.WaitGroup
		sem := make(chan struct{}, 6)
		for i := range ms {
			wg.Add(1)
			go func(i int) {
				defer wg.Done()
				sem <- struct{}{}
				defer func() { <-sem }()
				res[i] = runMutant(c, ms[i], base)
			}(i)
		}
		wg.Wait()
		for _, x := range res {
			total++
			st := "ok  "
			if x.ok {
				okN++
			} else {
				st = "FAIL"
				exit = 1
			}
			kind := "mutant"
			if x.m.Benign {
				kind = "benign"
			}
			fmt.Printf("%s %s %s %-40s %s\n", st, id, kind, x.m.Name, x.detail)
		}
	}
	fmt.Printf("selftest: %d/%d as expected\n", okN, total)
	return exit
}

// sensitivity runs the overlay mutants of one property and returns how many behave as
// expected; used by the thorough tier as a measured sensitivity figure (never part of the verdict).
func sensitivity(c *Config, id string) map[string]any {
	var ms []mutant
	for _, m := range mutants {
		if m.Prop == id {
			ms = append(ms, m)
		}
	}
	if len(ms) == 0 {
		return map[string]any{"mutants_total": 0}
	}
	bc := &Config{Repo: c.Repo, Verif: c.Verif, Tier: "quick", Quiet: true}
	base := failingKeys(runProp(bc, id))
	res := make([]selfResult, len(ms))
	var wg sync.WaitGroup
	sem := make(chan struct{}, 6)
	for i := range ms {
		wg.Add(1)
		go func(i int) {
			defer wg.Done()
			sem <- struct{}{}
			defer func() { <-sem }()
			res[i] = runMutant(c, ms[i], base)
		}(i)
	}
	wg.Wait()
	killed, benignOK, total, benign := 0, 0, 0, 0
	var unexpected []string
	for _, x := range res {
		if x.m.Benign {
			benign++
			if x.ok {
				benignOK++
			} else {
				unexpected = append(unexpected, x.m.Name+": "+x.detail)
			}
			continue
		}
		total++
		if x.ok {
			killed++
		} else {
			unexpected = append(unexpected, x.m.Name+": "+x.detail)
		}
	}
	return map[string]any{"mutants_total": total, "mutants_killed": killed, "benign_refactorings_total": benign, "benign_refactorings_silent": benignOK, "unexpected": unexpected,
		"note": "in-memory overlay mutants of this property's rules (checker/mutants_a.go); a measured sensitivity figure, not part of the verdict"}
}
