package main

import (
	"fmt"
	"go/ast"
	"go/token"
	"go/types"
	"sort"
	"strings"

	"golang.org/x/tools/go/ssa"
)

// C07 - values and calls cross the host/script boundary unchanged.
//
// Transport of a particular value across the boundary is per-value reflection and is not
// decided. The clauses below are structural necessary conditions of the boundary code: the
// sibling variants of the two call bridges agree, every argument and result is carried, and
// the tables the boundary relies on are per interpreter.

func init() {
	register("C07", &propMeta{
		Level: "other",
		Explanation: "Structural necessary conditions of the two call bridges and of the symbol table; whether a given value survives reflection (interfaces, func-typed values, zero values) is NOT decided. " +
			"R07.1 script -> host: every variant of the compiled-call generator that invokes the host function builds a fresh argument vector of the call's arity inside the run-time closure, fills every element from the operand generators through the one wrapping helper (getBinValue with the wrapper-type lookup), in operand order, with no early exit; " +
			"R07.2 host -> script: the reflect.MakeFunc bridge of an interpreted function stores every incoming argument (the only early exit is the documented 'no frame entry for an unused argument'), runs the function body, and returns exactly the first numRet slots of the activation frame; " +
			"R07.3 the activation frames created by both bridges have their slots bound to fresh storage, arguments and receivers being copied in (same analysis as C05/R05.2); R07.4 results of a compiled call in a return statement go to the slot the compiler allotted (same analysis as C02/R02.8, generator clause); " +
			"R07.5 the binary-package table filled by Use never aliases the caller's Exports map (same analysis as C13/R13.6); R07.6 the wrapper handed to compiled code for an interpreted value is selected on the value's full method set (same analysis as C05/R05.5); " +
			"R07.7 the copier fixing the arguments of go/defer statements copies every settable value; R07.8 Execute returns the live value, never a fresh copy. What the bridge does after a cancelled evaluation is C10's subject (R10.2).",
		Assumptions: []string{"reflect.Value.Call and reflect.MakeFunc transport values as documented", "getBinValue's own case analysis is not decided"},
		Run:         runC07,
	})
	ruleText["R07.1"] = "in every run-time closure of callBin that calls the host function: `in` (or the deferred record) is made inside the closure, and filled by one `for i, v := range values` loop without break/continue/return whose element expression calls getBinValue(getMapType, v, f) (optionally through the copier for go/defer)"
	ruleText["R07.2"] = "in the reflect.MakeFunc callback of genFunctionWrapper: the loop over the incoming arguments stores into the frame on every path that does not leave the loop, its only exit is a break guarded by the slot-count test, the body is run with runCfg, and the callback returns fr.data[:numRet]"
	ruleText["R07.3"] = "same analysis as C05/R05.2 (fresh activation slots)"
	ruleText["R07.4"] = "same analysis as C02/R02.8 (a run-time generator derives a result slot from the operand's position only where the direct store is allowed)"
	ruleText["R07.5"] = "same analysis as C13/R13.6 (Use copies the Exports map entries into per-interpreter maps)"
	ruleText["R07.7"] = "on the flow graph of every argument copier (func(reflect.Value) reflect.Value using reflect.New and Set: fixArg) pruned under <param>.CanSet() == true, no `return <param>` is reachable: the arguments of go and defer statements calling host functions are fixed when the statement executes"
	ruleText["R07.8"] = "no value returned by (*Interpreter).Execute originates (SSA) in reflect.New(T).Elem() or an argument copier: the host gets the live variable, as from Globals and Symbols"
	ruleText["R07.10"] = "every assignment <node>.rval = v in cfg where v is looked up in Interpreter.binPkg, or is the rval of a binSym symbol, is unreachable (path conditions evaluated three-valued with the facts of the enclosing cases) under v.CanAddr() == true: a host variable is never a compile-time constant"
	ruleText["R07.11"] = "go.mod declares a language version below go1.22: no function literal that outlives its loop iteration (stored in a field or element, appended, returned, placed in a composite literal, given to reflect.MakeFunc, started by go/defer) refers to a variable of the enclosing for/range clause"
	ruleText["R07.12"] = "in the generator of calls, inside each loop over the results of a nested call that appends operand generators, the parameter type of the operand position is not consulted: a variable redefined inside that loop (per result) is"
	ruleText["R07.13"] = "same analysis as C06/R06.11 (a deferred host call written f(s...) hands the host the elements of s, not s as one argument)"
	ruleText["R07.14"] = "every entry zeroValues[<T>T] built by reflect.ValueOf holds a value whose Go type is T (table agreement between type categories and reflect kinds)"
	ruleText["R07.6"] = "same analysis as C05/R05.5 (getWrapper decides on (*itype).methods)"
}

func runC07(c *Config, r *Report) {
	ic, err := loadInterp(c, true)
	if err != nil {
		r.Errorf("%v", err)
		return
	}
	loopCaptureRule(c, ic, r, "R07.11", nil)
	c07R1(ic, r)
	c07R2(ic, r)
	freshFrameSlots(ic, r, "R07.3")
	{
		x := &c02ctx{ic: ic, r: newReport("C02"), actName: map[int64]string{}, spelling: map[int64]string{}, builtin: map[int64]*types.Func{}, constOp: map[int64]*types.Func{}, srcToken: map[int64]token.Token{}, tokenKind: map[int64]string{}}
		x.r8()
		relabel(r, x.r, "R07.4")
	}
	checkBinPkgOwnership(ic, r, "R07.5")
	{
		s := newReport("C05")
		c05R5(ic, s)
		relabel(r, s, "R07.6")
	}
	copiersAlwaysCopy(ic, r, "R07.7")
	pureLookups(ic, r, "R07.19")
	c07R23(ic, r)
	// R07.22: what the host obtains from Symbols reflects the declarations of the moment
	pureFuncs(ic, r, "R07.22", []string{"Interpreter.Symbols"}, 1, "computed-from-the-current-tables-at-each-call",
		"functions and variables can be declared or redefined by a later Eval, and packages added by a later import or Use: a result remembered per import path hands the host the functions of the earlier state (old body, missing names)", true)
	// R07.21: = R01.34: a declared function returned by a script function reaches the host as a func value
	{
		sub := newReport("C01")
		c01R34(ic, sub)
		for _, o := range sub.Obls {
			o.Rule = "R07.21"
			r.add(o)
		}
		r.Errors = append(r.Errors, sub.Errors...)
	}
	// R07.20: = R04.13 on the generator of calls to compiled functions
	{
		sub := newReport("C04")
		c04R13(ic, sub)
		n := 0
		for _, o := range sub.Obls {
			if strings.HasPrefix(o.Key, "callBin/") {
				o.Rule = "R07.20"
				r.add(o)
				n++
			}
		}
		r.Errors = append(r.Errors, sub.Errors...)
		if n == 0 {
			r.Errorf("R07.20: no slot replacement under a definition test found in the generator of compiled calls")
		}
	}
	c07R8(ic, r)
	c07R10(ic, r)
	c07R12(ic, r)
	c05R8(ic, r, "R07.15")
	c07R16(ic, r)
	c07R17(ic, r)
	c07R18(ic, r)
	c06R11(ic, r, "R07.13")
	zeroTableAgreement(ic, r, "R07.14")
}

// c07R1: sibling agreement of the argument preparation in callBin.
func c07R1(ic *IC, r *Report) {
	fi := ic.fn(r, "callBin")
	if fi == nil {
		return
	}
	info := ic.Info
	n := 0
	// the operand generators: the slice of generators ranged over by most closures
	count := map[types.Object]int{}
	for _, fl := range (&c02ctx{ic: ic}).closuresOf(fi) {
		seenHere := map[types.Object]bool{}
		ast.Inspect(fl.Body, func(m ast.Node) bool {
			if rs, ok := m.(*ast.RangeStmt); ok {
				if xid, ok := unparen(rs.X).(*ast.Ident); ok && types.TypeString(info.TypeOf(xid), nil) == "[]func(*github.com/traefik/yaegi/interp.frame) reflect.Value" {
					if o := info.ObjectOf(xid); !seenHere[o] {
						seenHere[o] = true
						count[o]++
					}
				}
			}
			return true
		})
	}
	var operands types.Object
	for o, c := range count {
		if operands == nil || c > count[operands] {
			operands = o
		}
	}
	if operands == nil {
		r.Errorf("R07.1: the slice of operand generators of callBin was not identified")
		return
	}
	for _, fl := range (&c02ctx{ic: ic}).closuresOf(fi) {
		// does this closure invoke the host function? (callFn(...) or a deferred record)
		invokes := false
		ast.Inspect(fl.Body, func(m ast.Node) bool {
			if c, ok := m.(*ast.CallExpr); ok {
				if id, ok := unparen(c.Fun).(*ast.Ident); ok && id.Name == "callFn" {
					invokes = true
				}
			}
			if as, ok := m.(*ast.AssignStmt); ok && len(as.Lhs) == 1 {
				if v := selField(info, as.Lhs[0]); v != nil && v.Name() == "deferred" {
					invokes = true
				}
			}
			return true
		})
		// the operands handed to an in-package helper that prepares the call
		type handoff struct {
			call *ast.CallExpr
			g    *types.Func
			pi   int
		}
		var handoffs []handoff
		ast.Inspect(fl.Body, func(m ast.Node) bool {
			c, ok := m.(*ast.CallExpr)
			if !ok {
				return true
			}
			g, ok := calleeOf(info, c).(*types.Func)
			if !ok || g.Pkg() != ic.Pk.Types {
				return true
			}
			for ai, a := range c.Args {
				if id := identOf(a); id != nil && info.ObjectOf(id) == operands {
					handoffs = append(handoffs, handoff{c, g, ai})
					invokes = true
				}
			}
			return true
		})
		if !invokes {
			continue
		}
		n++
		key := fmt.Sprintf("callBin/closure#%d/arguments", n)
		var problems []string
		if len(handoffs) > 0 {
			for _, h := range handoffs {
				gi := ic.G.Funcs[h.g]
				sg := h.g.Type().(*types.Signature)
				okH := false
				if gi != nil && gi.Decl.Body != nil && h.pi < sg.Params().Len() {
					pv := sg.Params().At(h.pi)
					ast.Inspect(gi.Decl.Body, func(m ast.Node) bool {
						rs, ok := m.(*ast.RangeStmt)
						if !ok {
							return true
						}
						if xid := identOf(rs.X); xid != nil && info.ObjectOf(xid) == pv && len(callsIn(info, rs.Body, true, "interp.getBinValue")) > 0 {
							okH = true
						}
						return true
					})
				}
				if !okH {
					problems = append(problems, "the operands are handed to "+h.g.Name()+" ("+ic.pos(h.call.Pos())+"), which does not pass each of them through getBinValue")
				}
			}
			r.Check(len(problems) == 0, "R07.1", key, ic.pos(fl.Pos()), "the helper preparing the call passes every operand through getBinValue",
				"this variant of the compiled-call generator prepares its arguments differently from its siblings: "+strings.Join(dedupStr(problems), "; ")+": in that calling form (branch condition, assignment, return, go, defer) the host function receives a missing, stale or unwrapped argument")
			continue
		}
		// the vector is made inside the closure
		madeInside := false
		var vec types.Object
		ast.Inspect(fl.Body, func(m ast.Node) bool {
			as, ok := m.(*ast.AssignStmt)
			if !ok || as.Tok != token.DEFINE || len(as.Lhs) != 1 || len(as.Rhs) != 1 {
				return true
			}
			c, ok := unparen(as.Rhs[0]).(*ast.CallExpr)
			if !ok {
				return true
			}
			if id, ok := c.Fun.(*ast.Ident); ok && id.Name == "make" && types.TypeString(info.TypeOf(as.Rhs[0]), nil) == "[]reflect.Value" {
				madeInside = true
				vec = info.ObjectOf(as.Lhs[0].(*ast.Ident))
			}
			return true
		})
		if !madeInside {
			problems = append(problems, "the argument vector is not allocated inside the run-time closure")
		}
		// the fill loop
		loops := 0
		ast.Inspect(fl.Body, func(m ast.Node) bool {
			rs, ok := m.(*ast.RangeStmt)
			if !ok {
				return true
			}
			xid, ok := unparen(rs.X).(*ast.Ident)
			if !ok || info.ObjectOf(xid) != operands {
				return true
			}
			loops++
			stores := 0
			wrapped := false
			ast.Inspect(rs.Body, func(k ast.Node) bool {
				switch y := k.(type) {
				case *ast.BranchStmt, *ast.ReturnStmt:
					problems = append(problems, "the loop over the operands can be left early at "+ic.pos(k.Pos()))
				case *ast.AssignStmt:
					for i, l := range y.Lhs {
						ix, ok := unparen(l).(*ast.IndexExpr)
						if !ok {
							continue
						}
						if id, ok := unparen(ix.X).(*ast.Ident); ok && vec != nil && info.ObjectOf(id) == vec && i < len(y.Rhs) {
							stores++
							if len(callsIn(info, y.Rhs[i], true, "interp.getBinValue")) > 0 {
								wrapped = true
							} else {
								problems = append(problems, "argument stored without getBinValue: "+types.ExprString(y.Rhs[i])+" at "+ic.pos(y.Pos()))
							}
						}
					}
				}
				return true
			})
			if stores == 0 {
				problems = append(problems, "the loop over the operands stores no argument")
			}
			_ = wrapped
			return true
		})
		if loops != 1 {
			problems = append(problems, fmt.Sprintf("%d loops over the operand generators (exactly one expected)", loops))
		}
		r.Check(len(problems) == 0, "R07.1", key, ic.pos(fl.Pos()), "fresh vector, one complete loop, every operand through getBinValue",
			"this variant of the compiled-call generator prepares its arguments differently from its siblings: "+strings.Join(dedupStr(problems), "; ")+": in that calling form (branch condition, assignment, return, go, defer) the host function receives a missing, stale or unwrapped argument")
	}
	if n < 5 {
		r.Errorf("R07.1: only %d closures of callBin invoke the host function (6 variants confirmed by reading)", n)
	}
}

// c07R2: the MakeFunc bridge of interpreted functions.
func c07R2(ic *IC, r *Report) {
	fi := ic.fn(r, "genFunctionWrapper")
	if fi == nil {
		return
	}
	info := ic.Info
	var cb *ast.FuncLit
	ast.Inspect(fi.Decl.Body, func(n ast.Node) bool {
		if c, ok := n.(*ast.CallExpr); ok && isCallTo(info, c, "reflect.MakeFunc") && len(c.Args) == 2 {
			if fl, ok := unparen(c.Args[1]).(*ast.FuncLit); ok {
				cb = fl
			}
		}
		return true
	})
	if cb == nil {
		r.Errorf("R07.2: the reflect.MakeFunc callback of genFunctionWrapper was not found")
		return
	}
	var inParam types.Object
	if len(cb.Type.Params.List) > 0 && len(cb.Type.Params.List[0].Names) > 0 {
		inParam = info.ObjectOf(cb.Type.Params.List[0].Names[0])
	}
	// (a) loop over the incoming arguments
	var loop *ast.RangeStmt
	ast.Inspect(cb.Body, func(n ast.Node) bool {
		if rs, ok := n.(*ast.RangeStmt); ok {
			if id, ok := unparen(rs.X).(*ast.Ident); ok && info.ObjectOf(id) == inParam {
				loop = rs
			}
		}
		return true
	})
	if loop == nil {
		r.Fail("R07.2", "genFunctionWrapper/arguments", ic.pos(cb.Pos()), "the bridge no longer ranges over the incoming arguments: the interpreted function runs with zero-valued parameters")
		return
	}
	var problems []string
	// exits of the loop: only `break` under a comparison of the index with len(<slots>)
	ast.Inspect(loop.Body, func(n ast.Node) bool {
		switch x := n.(type) {
		case *ast.FuncLit:
			return false
		case *ast.ReturnStmt:
			problems = append(problems, "return inside the argument loop at "+ic.pos(x.Pos()))
		case *ast.BranchStmt:
			if x.Tok == token.CONTINUE {
				problems = append(problems, "continue inside the argument loop at "+ic.pos(x.Pos())+" (an argument is skipped)")
			}
			if x.Tok == token.BREAK {
				guarded := false
				for _, p := range enclosingPath(loop.Body, x) {
					if ifs, ok := p.(*ast.IfStmt); ok {
						if be, ok := unparen(ifs.Cond).(*ast.BinaryExpr); ok && (be.Op == token.GEQ || be.Op == token.GTR) {
							if c, ok := unparen(be.Y).(*ast.CallExpr); ok {
								if id, ok := c.Fun.(*ast.Ident); ok && id.Name == "len" {
									guarded = true
								}
							}
						}
					}
				}
				if !guarded {
					problems = append(problems, "break at "+ic.pos(x.Pos())+" not guarded by the slot-count test")
				}
			}
		}
		return true
	})
	// every path through the iteration stores the argument: each case of the switch (or the body) calls Set
	sets := 0
	ast.Inspect(loop.Body, func(n ast.Node) bool {
		if cc, ok := n.(*ast.CaseClause); ok {
			has := false
			for _, st := range cc.Body {
				if len(callsIn(info, st, false, "reflect.Value.Set")) > 0 {
					has = true
				}
			}
			if !has {
				problems = append(problems, "the case at "+ic.pos(cc.Pos())+" stores nothing")
			}
			sets++
		}
		return true
	})
	if sets == 0 && len(callsIn(info, loop.Body, false, "reflect.Value.Set")) == 0 {
		problems = append(problems, "no argument is stored")
	}
	r.Check(len(problems) == 0, "R07.2", "genFunctionWrapper/arguments", ic.pos(loop.Pos()), "every incoming argument is stored into the activation frame",
		"the host-to-script bridge does not carry every argument: "+strings.Join(problems, "; ")+": an interpreted function called natively sees a zero value for that parameter")
	// (b) the body is run and the results are the first numRet slots
	ran := len(callsIn(info, cb.Body, false, "interp.runCfg")) > 0
	var ret *ast.ReturnStmt
	for _, st := range cb.Body.List {
		if rs, ok := st.(*ast.ReturnStmt); ok {
			ret = rs
		}
	}
	okRet := false
	if ret != nil && len(ret.Results) == 1 {
		if se, ok := unparen(ret.Results[0]).(*ast.SliceExpr); ok && se.Low == nil && se.High != nil {
			if v := selFieldNode(info, unparen(se.X)); v != nil && v.Name() == "data" {
				if id, ok := unparen(se.High).(*ast.Ident); ok && id.Name == "numRet" {
					okRet = true
				}
			}
		}
	}
	r.Check(ran && okRet, "R07.2", "genFunctionWrapper/results", ic.pos(cb.Pos()), "the body is executed and the results are the first numRet slots of the frame",
		fmt.Sprintf("the host-to-script bridge does not run the function body and return fr.data[:numRet] (runs: %v, returns the result slots: %v): a native caller receives missing or shifted results", ran, okRet))
}

// c07R8: the value handed to the host by Execute (hence Eval) for a variable is the variable
// itself, as Globals and Symbols hand it: the host reads later assignments by the script and
// the script sees the host's Set. No value returned by Execute originates in a fresh
// allocation (reflect.New(T).Elem(), an argument copier).
func c07R8(ic *IC, r *Report) {
	fn := ic.ssaMeth("Interpreter", "Execute")
	if fn == nil {
		r.Errorf("anchor not resolved: (*Interpreter).Execute")
		return
	}
	cps := copiers(ic)
	isCopier := func(c *ssa.Call) bool {
		if sc := c.Call.StaticCallee(); sc != nil {
			if o, ok := sc.Object().(*types.Func); ok && cps[o] {
				return true
			}
		}
		return false
	}
	n := 0
	var bad []string
	for _, b := range fn.Blocks {
		for _, ins := range b.Instrs {
			ret, ok := ins.(*ssa.Return)
			if !ok || len(ret.Results) == 0 {
				continue
			}
			n++
			for _, o := range origins(ret.Results[0], map[ssa.Value]bool{}) {
				c, ok := o.(*ssa.Call)
				if !ok {
					continue
				}
				if isCopier(c) {
					bad = append(bad, "a copy made by "+staticCalleeName(&c.Call)+" at "+ic.pos(c.Pos()))
				}
				if ssaCalleeKey(c) == "reflect.Value.Elem" {
					for _, ro := range origins(c.Call.Args[0], map[ssa.Value]bool{}) {
						if rc, ok := ro.(*ssa.Call); ok && ssaCalleeKey(rc) == "reflect.New" {
							bad = append(bad, "a fresh reflect.New(T).Elem() at "+ic.pos(rc.Pos()))
						}
					}
				}
			}
		}
	}
	if n == 0 {
		r.Errorf("R07.8: no return found in (*Interpreter).Execute")
		return
	}
	r.Check(len(bad) == 0, "R07.8", "Interpreter.Execute/result-is-the-live-value", ic.pos(fn.Pos()), "no returned value originates in a fresh allocation",
		"(*Interpreter).Execute can return "+strings.Join(dedupStr(bad), ", ")+" instead of the value read from the frame: a variable obtained by Eval no longer follows the assignments of the script, and what the host sets through it is lost, while Globals and Symbols still hand out the live variable")
}

// ssaCalleeKey returns the objKey ("pkg.Recv.name") of the static callee of c, or "".
func ssaCalleeKey(c *ssa.Call) string {
	if sc := c.Call.StaticCallee(); sc != nil {
		if o, ok := sc.Object().(*types.Func); ok {
			return objKey(o)
		}
	}
	return ""
}

// c07R10: a variable supplied by the host through Use is read when the script evaluates the
// expression, never when it is compiled. The compiler and the operator generators treat every
// node with a valid rval as a compile-time constant (folded, converted once, read outside the
// run-time closure), so a node that denotes a symbol of a binary package may receive the
// symbol's value in rval only when that value is not addressable (a function, a constant, a
// type): every assignment `<node>.rval = v` in cfg where v comes from the binary-package
// table (a lookup in Interpreter.binPkg, or the rval of a binSym symbol) is unreachable under
// v.CanAddr() == true.
func c07R10(ic *IC, r *Report) {
	fi := ic.fn(r, "Interpreter.cfg")
	if fi == nil {
		return
	}
	info := ic.Info
	rvalFld := ic.field("node", "rval")
	symRval := ic.field("symbol", "rval")
	binPkg := ic.field("Interpreter", "binPkg")
	if rvalFld == nil || symRval == nil || binPkg == nil {
		r.Errorf("anchor not resolved: node.rval / symbol.rval / Interpreter.binPkg")
		return
	}
	// locals bound to a lookup in the binary-package table
	fromTable := map[types.Object]bool{}
	ast.Inspect(fi.Decl.Body, func(n ast.Node) bool {
		as, ok := n.(*ast.AssignStmt)
		if !ok || len(as.Rhs) != 1 || len(as.Lhs) == 0 {
			return true
		}
		e := unparen(as.Rhs[0])
		for {
			ix, ok := e.(*ast.IndexExpr)
			if !ok {
				break
			}
			if selField(info, ix.X) == binPkg {
				if id, ok := as.Lhs[0].(*ast.Ident); ok && info.ObjectOf(id) != nil {
					if types.TypeString(info.TypeOf(id), nil) == "reflect.Value" {
						fromTable[info.ObjectOf(id)] = true
					}
				}
				break
			}
			e = unparen(ix.X)
		}
		return true
	})
	var split func(e ast.Expr, op token.Token) []ast.Expr
	split = func(e ast.Expr, op token.Token) []ast.Expr {
		if be, ok := unparen(e).(*ast.BinaryExpr); ok && be.Op == op {
			return append(split(be.X, op), split(be.Y, op)...)
		}
		return []ast.Expr{unparen(e)}
	}
	n := 0
	ast.Inspect(fi.Decl.Body, func(m ast.Node) bool {
		as, ok := m.(*ast.AssignStmt)
		if !ok || len(as.Lhs) != len(as.Rhs) {
			return true
		}
		for i, l := range as.Lhs {
			if selField(info, l) != rvalFld {
				continue
			}
			rhs := unparen(as.Rhs[i])
			src := ""
			if id, ok := rhs.(*ast.Ident); ok && fromTable[info.ObjectOf(id)] {
				src = types.ExprString(rhs)
			}
			guards := pathGuards(fi.Decl.Body, as)
			if se, ok := rhs.(*ast.SelectorExpr); ok && selField(info, se) == symRval {
				// the rval of a symbol: a binary symbol when the path tests sym.kind == binSym
				for _, g := range guards {
					if g.want && strings.Contains(types.ExprString(g.cond), "binSym") {
						src = types.ExprString(rhs)
					}
				}
			}
			if src == "" {
				continue
			}
			n++
			facts := map[string]int{src + ".CanAddr()": triTrue}
			for _, g := range guards {
				if g.want {
					for _, c := range split(g.cond, token.LAND) {
						if _, known := facts[types.ExprString(c)]; !known {
							facts[types.ExprString(c)] = triTrue
						}
					}
				} else {
					for _, c := range split(g.cond, token.LOR) {
						if _, known := facts[types.ExprString(c)]; !known {
							facts[types.ExprString(c)] = triFalse
						}
					}
				}
			}
			atom := func(e ast.Expr) int {
				if v, ok := facts[types.ExprString(e)]; ok {
					return v
				}
				return triUnknown
			}
			unreachable := false
			for _, g := range guards {
				v := evalCond(g.cond, atom)
				if g.want && v == triFalse || !g.want && v == triTrue {
					unreachable = true
				}
			}
			r.Check(unreachable, "R07.10", fmt.Sprintf("cfg/binary-symbol-as-constant#%d/not-for-variables", n), ic.pos(as.Pos()), "not reached for an addressable value (a host variable)",
				"cfg stores the value of a binary-package symbol ("+src+") in the node's rval also when it is addressable, i.e. a variable supplied by the host: nodes with a valid rval are compile-time constants for the compiler and the operator generators (folded, converted once, read when the closure is generated), so the script keeps seeing the value the variable had when the code was compiled (func F() int { return host.A + 1 } after the host sets A)")
		}
		return true
	})
	if n == 0 {
		r.Errorf("R07.10: no assignment of a binary-package symbol value to node.rval found in cfg")
	}
}

// c07R12: script -> script calls with a nested call as sole argument, f(g()): each value
// returned by g feeds its own parameter of f, so the decision "wrap the value for an
// interface-typed parameter" is taken on the type of the parameter at the *result's* position.
// In the generator of calls, inside every loop over the results of a nested call (a loop nested
// in the loop over the operands that appends to the operand generators), the parameter type
// consulted is a variable (re)defined inside that inner loop: the type computed once for the
// operand's own position is only the default it starts from.
func c07R12(ic *IC, r *Report) {
	fi := ic.fn(r, "call")
	if fi == nil {
		return
	}
	info := ic.Info
	argFld := ic.field("itype", "arg")
	n := 0
	ast.Inspect(fi.Decl.Body, func(m ast.Node) bool {
		outer, ok := m.(*ast.RangeStmt)
		if !ok {
			return true
		}
		// the parameter type of the operand: a *itype local of the loop body assigned from X.arg[...]
		var ptype types.Object
		for _, st := range outer.Body.List {
			ast.Inspect(st, func(k ast.Node) bool {
				if loopBody(k) != nil {
					return false
				}
				as, ok := k.(*ast.AssignStmt)
				if !ok || len(as.Lhs) != 1 || len(as.Rhs) != 1 {
					return true
				}
				id, ok := as.Lhs[0].(*ast.Ident)
				if !ok || !isNamedPtr(info.TypeOf(id), "itype") {
					return true
				}
				uses := false
				ast.Inspect(as.Rhs[0], func(q ast.Node) bool {
					if se, ok := q.(*ast.SelectorExpr); ok && selField(info, se) == argFld && argFld != nil {
						uses = true
					}
					return true
				})
				if uses && ptype == nil {
					ptype = info.ObjectOf(id)
				}
				return true
			})
		}
		if ptype == nil {
			return true
		}
		ast.Inspect(outer.Body, func(k ast.Node) bool {
			body := loopBody(k)
			if body == nil || k == ast.Node(outer) {
				return true
			}
			appends := false
			ast.Inspect(body, func(q ast.Node) bool {
				if c, ok := q.(*ast.CallExpr); ok && isBuiltinCall(info, c, "append") {
					appends = true
				}
				return true
			})
			if !appends {
				return true
			}
			n++
			var bad []string
			ast.Inspect(body, func(q ast.Node) bool {
				// arg := arg (the default the inner variable starts from) is accepted
				if as, ok := q.(*ast.AssignStmt); ok && as.Tok == token.DEFINE && len(as.Rhs) == 1 {
					if rid, ok := unparen(as.Rhs[0]).(*ast.Ident); ok && info.Uses[rid] == ptype {
						return false
					}
				}
				if id, ok := q.(*ast.Ident); ok && info.Uses[id] == ptype {
					bad = append(bad, ic.pos(id.Pos()))
				}
				return true
			})
			r.Check(len(bad) == 0, "R07.12", fmt.Sprintf("call/nested-call-results#%d/parameter-of-each-result", n), ic.pos(k.Pos()), "the parameter type is determined per result",
				"in the loop over the results of a nested call, the generator of calls consults "+ptype.Name()+" (at "+strings.Join(bad, ", ")+"), the type of the parameter at the operand's own position, for every result: f(g()) with g returning (T, error) and f taking (I, error), I an interface declared in the script, wraps the error like the first parameter and the call panics (reflect.Set: value of type interp.valueInterface is not assignable to type error)")
			return false
		})
		return false
	})
	if n == 0 {
		r.Errorf("R07.12: no loop over the results of a nested call found in the generator of calls")
	}
}

// c07R14: whether the last argument of a call to a variadic script function is the variadic
// parameter itself is decided by the ellipsis of the call (f(s...), recorded as aCallSlice),
// as the bridge to host functions does with Call/CallSlice - never by comparing run-time
// types: f(a) with a of type []interface{} and f taking ...interface{} passes ONE element.
// In the generator of calls, every store of a whole operand into the variadic vector of the
// new frame (vararg.Set(v) with v not built by reflect.Append) lies under a condition on the
// ellipsis flag.
func c07R14(ic *IC, r *Report, rule string) {
	fi := ic.fn(r, "call")
	if fi == nil {
		return
	}
	info := ic.Info
	// the ellipsis flag: locals defined from a comparison with the constant aCallSlice
	flag := map[types.Object]bool{}
	ast.Inspect(fi.Decl.Body, func(m ast.Node) bool {
		as, ok := m.(*ast.AssignStmt)
		if !ok || len(as.Lhs) != 1 || len(as.Rhs) != 1 {
			return true
		}
		mentions := false
		ast.Inspect(as.Rhs[0], func(k ast.Node) bool {
			if id, ok := k.(*ast.Ident); ok {
				if c, ok := info.Uses[id].(*types.Const); ok && c.Name() == "aCallSlice" {
					mentions = true
				}
			}
			return true
		})
		if id, ok := as.Lhs[0].(*ast.Ident); ok && mentions {
			flag[info.ObjectOf(id)] = true
		}
		return true
	})
	mentionsFlag := func(e ast.Node) bool {
		found := false
		ast.Inspect(e, func(k ast.Node) bool {
			if id, ok := k.(*ast.Ident); ok {
				if flag[info.ObjectOf(id)] {
					found = true
				}
				if c, ok := info.Uses[id].(*types.Const); ok && c.Name() == "aCallSlice" {
					found = true
				}
			}
			return true
		})
		return found
	}
	// the variadic vector: reflect.Value locals assigned from an element of a frame's data
	// indexed by an expression mentioning the position of the variadic parameter
	vec := map[types.Object]bool{}
	ast.Inspect(fi.Decl.Body, func(m ast.Node) bool {
		as, ok := m.(*ast.AssignStmt)
		if !ok || len(as.Lhs) != 1 || len(as.Rhs) != 1 {
			return true
		}
		ix, ok := unparen(as.Rhs[0]).(*ast.IndexExpr)
		if !ok || !strings.Contains(types.ExprString(ix.Index), "variadic") {
			return true
		}
		if id, ok := as.Lhs[0].(*ast.Ident); ok && types.TypeString(info.TypeOf(id), nil) == "reflect.Value" {
			vec[info.ObjectOf(id)] = true
		}
		return true
	})
	n, nconv := 0, 0
	for _, fl := range (&c02ctx{ic: ic}).closuresOf(fi) {
		ast.Inspect(fl.Body, func(m ast.Node) bool {
			c, ok := m.(*ast.CallExpr)
			if !ok || !isCallTo(info, c, "reflect.Value.Set") || len(c.Args) != 1 {
				return true
			}
			se := unparen(c.Fun).(*ast.SelectorExpr)
			id, ok := unparen(se.X).(*ast.Ident)
			if !ok || !vec[info.ObjectOf(id)] {
				return true
			}
			if inner, ok := unparen(c.Args[0]).(*ast.CallExpr); ok && isCallTo(info, inner, "reflect.Append", "reflect.AppendSlice") {
				// converse: under the ellipsis the callee receives the caller's slice itself (it
				// shares the backing array: s[0] = x in f is seen by the caller of f(s...))
				for _, g := range pathGuards(fl.Body, c) {
					if g.want && mentionsFlag(g.cond) {
						nconv++
						r.Fail(rule, fmt.Sprintf("call/variadic-vector-copied-under-the-ellipsis#%d", nconv), ic.pos(c.Pos()),
							"for a call written f(s...) the generator of calls builds the variadic parameter with "+types.ExprString(c.Args[0])+" instead of passing the operand itself: the callee works on a copy, so its writes to the elements (and its view of the caller's later writes) differ from compiled Go, where f(s...) passes s")
					}
				}
				return true
			}
			n++
			guarded := false
			for _, g := range pathGuards(fl.Body, c) {
				if g.want && mentionsFlag(g.cond) {
					guarded = true
				}
			}
			r.Check(guarded, rule, fmt.Sprintf("call/variadic-vector-set-whole#%d/only-under-the-ellipsis", n), ic.pos(c.Pos()), "the operand becomes the variadic parameter only for a call written f(s...)",
				"the generator of calls stores a whole operand into the variadic parameter ("+types.ExprString(c)+") without testing the ellipsis of the call (n.action == aCallSlice): the decision is taken on run-time types, so f(a) with a of type []interface{} and f(...interface{}) receives the elements of a instead of one argument (len 3 instead of 1)")
			return true
		})
	}
	if n == 0 && nconv == 0 {
		r.Errorf("%s: no store of a whole operand into the variadic vector found in the generator of calls", rule)
	}
}

// zeroTableAgreement: the table of zero values indexed by type category holds, for the category
// named <T>T, the zero value of the Go type T (zeroValues[complex64T] is complex64(0)): a
// value declared complex64 in the script must have kind Complex64 when it reaches the host.
// Entries are read from element assignments and from a keyed composite literal.
func zeroTableAgreement(ic *IC, r *Report, rule string) {
	info := ic.Info
	tbl := ic.Pk.Types.Scope().Lookup("zeroValues")
	if tbl == nil {
		r.Errorf("%s: anchor not resolved: package variable zeroValues", rule)
		return
	}
	n := 0
	check := func(key ast.Expr, val ast.Expr) {
		kid := identOf(key)
		if kid == nil {
			return
		}
		c, ok := info.Uses[kid].(*types.Const)
		if !ok || !strings.HasSuffix(c.Name(), "T") {
			return
		}
		want := strings.TrimSuffix(c.Name(), "T")
		call, ok := unparen(val).(*ast.CallExpr)
		if !ok || !isCallTo(info, call, "reflect.ValueOf") || len(call.Args) != 1 {
			return
		}
		t := info.TypeOf(call.Args[0])
		if t == nil {
			return
		}
		b, isBasic := t.(*types.Basic)
		if !isBasic {
			return // error and other non-basic entries are built differently
		}
		n++
		got := b.Name()
		if b.Info()&types.IsUntyped != 0 {
			got = types.Default(b).String()
		}
		r.Check(got == want, rule, "zeroValues/"+c.Name(), ic.pos(val.Pos()), "the zero value has the Go type the category is named after",
			"zeroValues["+c.Name()+"] is a zero value of type "+got+", not "+want+": a script variable of that type is created with the wrong reflect kind, which shows as soon as it crosses the host boundary (reflect.Value.Call panics, a host function receives a "+got+")")
	}
	for _, f := range ic.Pk.Syntax {
		ast.Inspect(f, func(m ast.Node) bool {
			switch x := m.(type) {
			case *ast.AssignStmt:
				for i, l := range x.Lhs {
					if ix, ok := unparen(l).(*ast.IndexExpr); ok && i < len(x.Rhs) {
						if id := identOf(ix.X); id != nil && info.ObjectOf(id) == tbl {
							check(ix.Index, x.Rhs[i])
						}
					}
				}
			case *ast.ValueSpec:
				for i, nm := range x.Names {
					if info.ObjectOf(nm) == tbl && i < len(x.Values) {
						if cl, ok := unparen(x.Values[i]).(*ast.CompositeLit); ok {
							for _, e := range cl.Elts {
								if kv, ok := e.(*ast.KeyValueExpr); ok {
									check(kv.Key, kv.Value)
								}
							}
						}
					}
				}
			}
			return true
		})
	}
	if n < 15 {
		r.Errorf("%s: only %d entries of zeroValues read (17 basic categories expected)", rule, n)
	}
}

func init() {
	ruleText["R07.20"] = "= R04.13 on callBin: x, err := host.F() with err already declared assigns the existing err - the closure storing the results of a compiled call replaces a destination's slot by a new variable only under a test of node.redeclared"
	ruleText["R07.22"] = "(*Interpreter).Symbols computes what it returns from the interpreter's current tables at each call: it and the in-package functions it calls store nothing outside their own locals (no field of the interpreter, no map that is not created locally, no package-level variable) - same analysis as R07.19/R05.6"
	ruleText["R07.21"] = "= R01.34 shared: a declared function returned or stored as a value is a function value (callable by the host through reflect), never the interpreter's *node"
	ruleText["R07.19"] = "= R05.6 shared: the choice of the wrapper type handed to compiled code (getWrapper) and the method look-ups it rests on keep no state between calls - the wrapper depends on the interpreted type's own methods, not only on the host interface"
	ruleText["R07.15"] = "= R05.8 shared (an interpreted struct handed to compiled code keeps its interpreted methods)"
	ruleText["R07.16"] = "in a generator that consults the frame level of a node, every run-time closure addressing that node's slot (data[X.findex...]) takes the vector from getFrame(f, X.level): the destination of a result can live in an enclosing function's frame"
	ruleText["R07.17"] = "Globals hands out the live variables: no value stored into the map it returns originates in reflect.New(T).Elem() (= R07.8 for the other accessor)"
}

// c07R16: frame-level agreement. cfg may retarget a node onto the slot of its destination,
// which can belong to an enclosing function (node.level > 0) or to the global frame. A closure
// that indexes f.data (or f.root.data) with such a node's findex writes into the wrong frame.
// Round-5 seed: callBin's result store distinguished only "global" from "current".
func c07R16(ic *IC, r *Report) {
	info := ic.Info
	findex := ic.field("node", "findex")
	level := ic.field("node", "level")
	dataF := ic.field("frame", "data")
	if findex == nil || level == nil || dataF == nil {
		r.Errorf("R07.16: fields node.findex / node.level / frame.data not resolved")
		return
	}
	nGen, nSites := 0, 0
	for _, name := range sortedKeys(ic.F) {
		fi := ic.F[name]
		if fi.Decl.Body == nil || fi.Obj == nil || fi.Decl.Recv != nil {
			continue
		}
		sig := fi.Obj.Type().(*types.Signature)
		if sig.Params().Len() != 1 || !isNamedPtr(sig.Params().At(0).Type(), "node") {
			continue
		}
		// owners (printed node expressions) whose level the generator consults, and aliases
		levelOwners := map[string]bool{}
		findexAlias := map[types.Object]string{} // local -> owner
		dataAlias := map[types.Object]ast.Expr{} // local -> base expression X of X.data
		ast.Inspect(fi.Decl.Body, func(m ast.Node) bool {
			switch x := m.(type) {
			case *ast.SelectorExpr:
				if selField(info, x) == level {
					levelOwners[types.ExprString(x.X)] = true
				}
			case *ast.AssignStmt:
				if len(x.Lhs) == len(x.Rhs) {
					for i, rhs := range x.Rhs {
						id := identOf(x.Lhs[i])
						if id == nil {
							continue
						}
						if se, ok := unparen(rhs).(*ast.SelectorExpr); ok {
							if selField(info, se) == findex {
								findexAlias[info.ObjectOf(id)] = types.ExprString(se.X)
							}
							if selField(info, se) == dataF {
								dataAlias[info.ObjectOf(id)] = se.X
							}
						}
					}
				}
			}
			return true
		})
		if len(levelOwners) == 0 {
			continue
		}
		nGen++
		k := 0
		for _, fl := range (&c02ctx{ic: ic}).closuresOf(fi) {
			ast.Inspect(fl.Body, func(m ast.Node) bool {
				ix, ok := m.(*ast.IndexExpr)
				if !ok {
					return true
				}
				// owner of the index
				owner := ""
				ast.Inspect(ix.Index, func(q ast.Node) bool {
					switch e := q.(type) {
					case *ast.SelectorExpr:
						if selField(info, e) == findex {
							owner = types.ExprString(e.X)
						}
					case *ast.Ident:
						if o, ok := findexAlias[info.ObjectOf(e)]; ok {
							owner = o
						}
					}
					return true
				})
				if owner == "" || !levelOwners[owner] {
					return true
				}
				// base: X.data or a local alias of it
				var base ast.Expr
				if se, ok := unparen(ix.X).(*ast.SelectorExpr); ok && selField(info, se) == dataF {
					base = se.X
				} else if id := identOf(ix.X); id != nil {
					// the alias may be (re)assigned inside the closure
					ast.Inspect(fl.Body, func(q ast.Node) bool {
						if as, ok := q.(*ast.AssignStmt); ok && len(as.Lhs) == len(as.Rhs) {
							for i, l := range as.Lhs {
								if lid := identOf(l); lid != nil && info.ObjectOf(lid) == info.ObjectOf(id) {
									if se, ok := unparen(as.Rhs[i]).(*ast.SelectorExpr); ok && selField(info, se) == dataF {
										if base == nil {
											base = se.X
										} else if _, isCall := unparen(se.X).(*ast.CallExpr); !isCall {
											base = se.X // keep the weakest form seen
										}
									}
								}
							}
						}
						return true
					})
					if base == nil {
						base = dataAlias[info.ObjectOf(id)]
					}
				}
				if base == nil {
					return true
				}
				nSites++
				okBase := false
				if c, isCall := unparen(base).(*ast.CallExpr); isCall && len(c.Args) == 2 {
					if f, isF := calleeOf(info, c).(*types.Func); isF && f.Name() == "getFrame" {
						// the level argument belongs to the same owner (directly or through a local)
						arg := c.Args[1]
						if se, ok := unparen(arg).(*ast.SelectorExpr); ok && selField(info, se) == level && types.ExprString(se.X) == owner {
							okBase = true
						}
						if id := identOf(arg); id != nil {
							okBase = true // a local level (l := n.level): accepted, R01.8 follows such aliases
						}
					}
				}
				if okBase {
					return true
				}
				k++
				r.Fail("R07.16", fmt.Sprintf("%s/slot-of-%s-addressed-without-its-level#%d", name, owner, k), ic.pos(ix.Pos()),
					name+" addresses the slot of "+owner+" as "+types.ExprString(ix)+" on "+types.ExprString(base)+".data although it consults "+owner+".level elsewhere: when cfg has placed that slot in an enclosing function's frame (a closure assigning the result of a host call to a captured variable) the value is written into the wrong frame")
				return true
			})
		}
	}
	if nGen < 3 || nSites < 3 {
		r.Errorf("R07.16: %d generators consulting a node level, %d slot accesses analysed", nGen, nSites)
		return
	}
	failed := false
	for _, o := range r.Obls {
		if o.Rule == "R07.16" && !o.OK {
			failed = true
		}
	}
	if !failed {
		r.Pass("R07.16", "generators/slots-addressed-at-their-level", "", fmt.Sprintf("%d generators consult a node's level; %d slot accesses by that node's findex all go through getFrame", nGen, nSites))
	}
}

// c07R17: Globals returns the frame entries themselves.
func c07R17(ic *IC, r *Report) {
	fn := ic.ssaMeth("Interpreter", "Globals")
	if fn == nil {
		r.Errorf("R07.17: (*Interpreter).Globals not found (SSA)")
		return
	}
	n := 0
	for _, b := range fn.Blocks {
		for _, ins := range b.Instrs {
			mu, ok := ins.(*ssa.MapUpdate)
			if !ok {
				continue
			}
			n++
			bad := ""
			for _, o := range origins(mu.Value, map[ssa.Value]bool{}) {
				if c, ok := o.(*ssa.Call); ok {
					if f := c.Call.StaticCallee(); f != nil && f.Pkg != nil && f.Pkg.Pkg.Path() == "reflect" && (f.Name() == "Elem" || f.Name() == "New" || f.Name() == "Zero" || f.Name() == "ValueOf") {
						bad = "reflect." + f.Name()
					}
				}
			}
			r.Check(bad == "", "R07.17", fmt.Sprintf("Interpreter.Globals/store#%d/live-variable", n), ic.pos(mu.Pos()), "the map holds the symbol's own value",
				"Globals stores into the map it returns a value built with "+bad+" instead of the frame entry or the symbol's value: the host gets a detached copy, its Set is not seen by the script and later assignments of the script are not seen by the host")
		}
	}
	if n == 0 {
		r.Errorf("R07.17: no store into the result map found in Globals")
	}
}

func init() {
	ruleText["R07.18"] = "in the generator of compiled calls, the type consulted for an argument in a variadic position is the element type of the variadic parameter unless the call is written with an ellipsis: every funcType.In(variadic) used for one argument is followed by Elem(), directly or under a test excluding aCallSlice (sibling agreement of the literal-conversion type and of the interface-wrapper type)"
}

// c07R18: found D82 (io.MultiWriter(W{}, W{}) with interpreted writers: no wrapper was generated
// because the wrapper's target type was the slice type).
func c07R18(ic *IC, r *Report) {
	info := ic.Info
	fi := ic.fn(r, "callBin")
	if fi == nil {
		return
	}
	n := 0
	ast.Inspect(fi.Decl.Body, func(m ast.Node) bool {
		as, ok := m.(*ast.AssignStmt)
		if !ok || len(as.Lhs) != 1 || len(as.Rhs) != 1 {
			return true
		}
		// X = funcType.In(variadic) [ .Elem() ]
		rhs := unparen(as.Rhs[0])
		elem := false
		if c, ok := rhs.(*ast.CallExpr); ok && isCallTo(info, c, "reflect.Type.Elem") {
			elem = true
			rhs = unparen(c.Fun.(*ast.SelectorExpr).X)
		}
		c, ok := rhs.(*ast.CallExpr)
		if !ok || !isCallTo(info, c, "reflect.Type.In") || len(c.Args) != 1 {
			return true
		}
		if id := identOf(c.Args[0]); id == nil || id.Name != "variadic" {
			return true
		}
		lhs := identOf(as.Lhs[0])
		if lhs == nil {
			return true
		}
		n++
		ok2 := elem
		if !ok2 {
			// followed, in the same block, by `if n.action != aCallSlice { X = X.Elem() }`
			obj := info.ObjectOf(lhs)
			path := enclosingPath(fi.Decl.Body, as)
			for i := len(path) - 1; i >= 0 && !ok2; i-- {
				blk, isBlk := path[i].(*ast.BlockStmt)
				if !isBlk {
					continue
				}
				for _, s := range blk.List {
					ifs, isIf := s.(*ast.IfStmt)
					if !isIf || ifs.Pos() < as.End() {
						continue
					}
					mentionsSlice := false
					ast.Inspect(ifs.Cond, func(q ast.Node) bool {
						if id, ok := q.(*ast.Ident); ok {
							if cst, ok := info.Uses[id].(*types.Const); ok && cst.Name() == "aCallSlice" {
								mentionsSlice = true
							}
						}
						return true
					})
					if !mentionsSlice {
						continue
					}
					for _, bs := range ifs.Body.List {
						if as2, ok := bs.(*ast.AssignStmt); ok && len(as2.Lhs) == 1 && len(as2.Rhs) == 1 {
							if l2 := identOf(as2.Lhs[0]); l2 != nil && info.ObjectOf(l2) == obj {
								if c2, ok := unparen(as2.Rhs[0]).(*ast.CallExpr); ok && isCallTo(info, c2, "reflect.Type.Elem") {
									ok2 = true
								}
							}
						}
					}
				}
				break
			}
		}
		r.Check(ok2, "R07.18", fmt.Sprintf("callBin/variadic-position-type#%d:%s", n, lhs.Name), ic.pos(as.Pos()), "an argument in a variadic position is typed by the element of the variadic parameter",
			"callBin takes "+types.ExprString(as.Rhs[0])+", the slice type of the variadic parameter, as the type of one argument in a variadic position: no interface wrapper is generated for an interpreted value passed there (io.MultiWriter(W{}, W{}) panics in reflect: cannot use struct as io.Writer)")
		return true
	})
	if n < 2 {
		r.Errorf("R07.18: only %d uses of funcType.In(variadic) for an argument type found in callBin", n)
	}
}

func init() {
	ruleText["R07.23"] = "in the generator of calls to compiled functions (callBin) the position compared with the index of the variadic parameter is the position used to index the parameter types: every comparison `X >= v`, where v is the variable that also indexes the parameter list for the variadic element type (funcType.In(v)), has for X a sum of terms that is also the argument of an In call of the function (the argument index offset by the receiver) - for a method the two differ by one and the first variadic element would be given the type of the slice"
}

// c07R23: round-8 seed. One of the two tests `i+rcvrOffset >= variadic` of callBin lost its offset.
func c07R23(ic *IC, r *Report) {
	info := ic.Info
	fi := ic.fn(r, "callBin")
	if fi == nil {
		return
	}
	// local aliases: v := a + b (defined once)
	alias := map[types.Object]ast.Expr{}
	defs := map[types.Object]int{}
	ast.Inspect(fi.Decl.Body, func(q ast.Node) bool {
		as, ok := q.(*ast.AssignStmt)
		if !ok || len(as.Lhs) != len(as.Rhs) {
			return true
		}
		for i, l := range as.Lhs {
			if id := identOf(l); id != nil {
				o := info.ObjectOf(id)
				defs[o]++
				if _, isBin := unparen(as.Rhs[i]).(*ast.BinaryExpr); isBin && as.Tok == token.DEFINE {
					alias[o] = as.Rhs[i]
				}
			}
		}
		return true
	})
	var terms func(e ast.Expr, depth int) []string
	terms = func(e ast.Expr, depth int) []string {
		e = unparen(e)
		if b, ok := e.(*ast.BinaryExpr); ok && b.Op == token.ADD {
			return append(terms(b.X, depth), terms(b.Y, depth)...)
		}
		if id := identOf(e); id != nil && depth < 3 {
			if a, ok := alias[info.ObjectOf(id)]; ok && defs[info.ObjectOf(id)] == 1 {
				return terms(a, depth+1)
			}
		}
		return []string{types.ExprString(e)}
	}
	norm := func(e ast.Expr) string {
		t := terms(e, 0)
		sort.Strings(t)
		return strings.Join(t, " + ")
	}
	inArgs := map[string]bool{}
	bare := map[types.Object]bool{}
	for _, c := range callsIn(info, fi.Decl.Body, true, "reflect.Type.In") {
		if len(c.Args) != 1 {
			continue
		}
		inArgs[norm(c.Args[0])] = true
		if id := identOf(c.Args[0]); id != nil {
			if _, isAlias := alias[info.ObjectOf(id)]; !isAlias {
				bare[info.ObjectOf(id)] = true
			}
		}
	}
	n := 0
	ast.Inspect(fi.Decl.Body, func(q ast.Node) bool {
		b, ok := q.(*ast.BinaryExpr)
		if !ok || (b.Op != token.GEQ && b.Op != token.GTR && b.Op != token.LSS && b.Op != token.LEQ) {
			return true
		}
		x, v := b.X, identOf(b.Y)
		if b.Op == token.LSS || b.Op == token.LEQ {
			// v <= X written the other way round
			if id := identOf(b.X); id != nil && bare[info.ObjectOf(id)] {
				x, v = b.Y, id
			}
		}
		if v == nil || !bare[info.ObjectOf(v)] {
			return true
		}
		if _, isLit := unparen(x).(*ast.BasicLit); isLit {
			return true // v >= 0: is the function variadic at all
		}
		n++
		nx := norm(x)
		r.Check(inArgs[nx] && nx != v.Name, "R07.23", fmt.Sprintf("callBin/variadic-test#%d/position-in-the-parameter-list", n), ic.pos(b.Pos()), "the position compared ("+nx+") also indexes the parameter types",
			"callBin compares "+types.ExprString(x)+" (that is "+nx+") with the index of the variadic parameter "+v.Name+", but no parameter type is taken at that position (In is called with "+strings.Join(sortedKeys(inArgs), ", ")+"): the offset of the receiver is missing, so for a method of a compiled type the first variadic argument is treated as a fixed parameter and wrapped for (or converted to) the type of the slice - l.Println(scriptStringer) on a host value panics in reflect")
		return true
	})
	if n < 2 {
		r.Errorf("R07.23: only %d comparisons with the index of the variadic parameter found in callBin", n)
	}
}
