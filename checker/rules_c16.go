package main

import (
	"fmt"
	"go/ast"
	"go/token"
	"go/types"
	"golang.org/x/tools/go/ssa"
	"strings"

	"golang.org/x/tools/go/cfg"
)

func init() {
	register("C16", &propMeta{
		Level: "other",
		Explanation: "Structural clauses of source-import resolution: R16.1 inside importSrc the already-imported test dominates everything, the cycle test dominates the cycle mark, which dominates the directory read and every recursive path; the relative-import branch builds the directory from the importing file's directory; " +
			"R16.2 in pkgDir the vendor candidate is examined before the plain candidate and the recursion walks up through previousRoot, and in previousRoot the upward search for the closest vendor directory precedes every other answer for an ordinary root; R16.3 every file access reachable from importSrc inside package interp is an io/fs function on the interpreter's filesystem (no direct os/ioutil access). " +
			"The path arithmetic of effectivePkg/previousRoot (string values) is not decided.",
		Assumptions: []string{"go/cfg dominance over resolved call sites", "string-valued path computations are not modelled"},
		Run:         runC16,
	})
	ruleText["R16.1"] = "in importSrc: (a) the srcPkg early return dominates every file access and run; (b) the test of Interpreter.rdir[importPath] (returning an import-cycle error) dominates the store rdir[importPath] = true, which dominates fs.ReadDir and every call that can recurse (parse/gta/gtaRetry/cfg); (c) on the relative-import branch the directory derives from filepath.Dir(interp.name)"
	ruleText["R16.2"] = "in pkgDir the fs.Stat of the candidate containing the vendor directory precedes (dominates) the fs.Stat of the plain candidate, each successful Stat returns its own candidate, and the recursive call takes the root computed by previousRoot; in previousRoot, under root != mainID && final != vendor, no return with a nil error is reachable from the entry without passing a block that calls fs.Stat"
	ruleText["R16.6"] = "in importSrc the root handed to the global type analysis of the package (the root its own imports are resolved from) originates (SSA) only in effectivePkg or filepath.Rel: a path obtained by trimming a prefix is relative only while the prefix matches"
	ruleText["R16.7"] = "in importSrc the key of the import-once table (srcPkg) identifies the directory the import resolves to: it is not the bare import path, which is relative to the importer (./util from two directories, one directory under two spellings, one path vendored twice)"
	ruleText["R16.4"] = "in importSrc the first argument of effectivePkg originates (SSA) only in the second result of a pkgDir call (possibly through an in-package helper), the root parameter or a constant"
	ruleText["R16.8"] = "= R02.14 shared: nothing in package interp fills a process-wide table (sync.Map, package-level map) after package initialisation - a directory listing, a resolved path or a parsed file remembered by path alone is handed to an interpreter with another filesystem, GOPATH or a changed tree"
	ruleText["R16.5"] = "in the loop of previousRoot that calls fs.Stat on Join(<dir>, vendor), every break decided by a comparison with the source root (prefix) compares <dir> itself"
	ruleText["R16.3"] = "every file-system access in the functions reachable from importSrc within package interp is an io/fs function whose first argument is loaded from Interpreter.opt.filesystem; no os.Open/ReadFile/Stat/ReadDir or io/ioutil access"
}

func runC16(c *Config, r *Report) {
	ic, err := loadInterp(c, true)
	if err != nil {
		r.Errorf("%v", err)
		return
	}
	c15R3(ic, r, "R16.1")
	c16R1(ic, r)
	c16R2(ic, r)
	c16R2b(ic, r)
	c16R3(ic, r)
	c16R4(ic, r)
	c16R6(ic, r)
	c16R7(ic, r)
	c16R5(ic, r)
	noProcessWideMemo(ic, r, "R16.8")
	c16R9(ic, r)
}

func c16R1(ic *IC, r *Report) {
	is := ic.fn(r, "Interpreter.importSrc")
	if is == nil {
		return
	}
	rdir := ic.field("Interpreter", "rdir")
	if rdir == nil {
		r.Errorf("anchor not resolved: Interpreter.rdir")
		return
	}
	fg := buildFlow(is.Decl.Body, ic.Info)
	var test *ast.IfStmt
	var testIx *ast.IndexExpr
	var mark *ast.AssignStmt
	ast.Inspect(is.Decl.Body, func(n ast.Node) bool {
		switch x := n.(type) {
		case *ast.IfStmt:
			if ix, ok := unparen(x.Cond).(*ast.IndexExpr); ok && selField(ic.Info, ix.X) == rdir {
				test, testIx = x, ix
			}
			// if v := interp.rdir[k]; v { ... }  /  if v, ok := interp.rdir[k]; ok && v { ... }
			if as, ok := x.Init.(*ast.AssignStmt); ok && len(as.Rhs) == 1 && test == nil {
				if ix, ok := unparen(as.Rhs[0]).(*ast.IndexExpr); ok && selField(ic.Info, ix.X) == rdir {
					if lid := identOf(as.Lhs[0]); lid != nil {
						uses := false
						ast.Inspect(x.Cond, func(k ast.Node) bool {
							if id, ok := k.(*ast.Ident); ok && ic.Info.ObjectOf(id) == ic.Info.ObjectOf(lid) {
								uses = true
							}
							return true
						})
						if uses {
							test, testIx = x, ix
						}
					}
				}
			}
		case *ast.AssignStmt:
			for i, l := range x.Lhs {
				if ix, ok := unparen(l).(*ast.IndexExpr); ok && selField(ic.Info, ix.X) == rdir && i < len(x.Rhs) {
					if id, ok := unparen(x.Rhs[i]).(*ast.Ident); ok && id.Name == "true" {
						mark = x
					}
				}
			}
		}
		return true
	})
	if test == nil {
		r.Fail("R16.1", "importSrc/cycle-test", ic.pos(is.Decl.Pos()), "importSrc never tests Interpreter.rdir[importPath]: an import cycle recurses forever")
		return
	}
	// the test's body returns an error
	retErr := false
	for _, s := range test.Body.List {
		if rs, ok := s.(*ast.ReturnStmt); ok && len(rs.Results) == 2 {
			if id, ok := unparen(rs.Results[1]).(*ast.Ident); !ok || id.Name != "nil" {
				retErr = true
			}
		}
	}
	r.Check(retErr, "R16.1", "importSrc/cycle-test", ic.pos(test.Pos()), "a package already being loaded is reported as an error", "the branch taken when rdir[importPath] is set does not return an error: an import cycle is silently accepted or recurses")
	if mark == nil {
		r.Fail("R16.1", "importSrc/cycle-mark", ic.pos(is.Decl.Pos()), "importSrc never sets Interpreter.rdir[importPath] = true: cycles are not detected")
		return
	}
	// the key tested is the key marked (and the key cleared, if the mark is ever cleared)
	{
		keyOf := func(e ast.Expr) string {
			if ix, ok := unparen(e).(*ast.IndexExpr); ok {
				return types.ExprString(ix.Index)
			}
			return ""
		}
		tk := keyOf(testIx)
		mk := ""
		for _, l := range mark.Lhs {
			if ix, ok := unparen(l).(*ast.IndexExpr); ok && selField(ic.Info, ix.X) == rdir {
				mk = types.ExprString(ix.Index)
			}
		}
		var other []string
		ast.Inspect(is.Decl.Body, func(n ast.Node) bool {
			if c, ok := n.(*ast.CallExpr); ok && len(c.Args) == 2 {
				if id, ok := c.Fun.(*ast.Ident); ok && id.Name == "delete" && selField(ic.Info, c.Args[0]) == rdir {
					if k := types.ExprString(c.Args[1]); k != mk {
						other = append(other, "delete uses key "+k)
					}
				}
			}
			return true
		})
		// the key variable is not reassigned between the test and the mark
		reassigned := false
		if id, ok := testIx.Index.(*ast.Ident); ok {
			obj := ic.Info.ObjectOf(id)
			ast.Inspect(is.Decl.Body, func(n ast.Node) bool {
				if as, ok := n.(*ast.AssignStmt); ok && as.Pos() > test.Pos() && as.End() < mark.Pos() {
					for _, l := range as.Lhs {
						if lid, ok := l.(*ast.Ident); ok && ic.Info.ObjectOf(lid) == obj {
							reassigned = true
						}
					}
				}
				return true
			})
		}
		r.Check(tk == mk && len(other) == 0 && !reassigned, "R16.1", "importSrc/cycle-key", ic.pos(mark.Pos()), "the in-progress mark is tested, set and cleared under the same key ("+mk+")",
			fmt.Sprintf("the in-progress table is tested with key %s and marked with key %s %v: a package being loaded is not recognised when it is reached again (for the imports whose two keys differ), so an import cycle recurses until the stack overflows", tk, mk, other))
	}
	d1, _ := fg.dominates(test.Cond, mark)
	sinks := callsIn(ic.Info, is.Decl.Body, false, "io/fs.ReadDir", "interp.Interpreter.parse", "interp.Interpreter.gta", "interp.Interpreter.gtaRetry", "interp.Interpreter.cfg")
	var late []string
	for _, s := range sinks {
		if d, _ := fg.dominates(mark, s); !d {
			late = append(late, shortKey(objKey(calleeOf(ic.Info, s)))+" at "+ic.pos(s.Pos()))
		}
	}
	r.Check(d1 && len(late) == 0 && len(sinks) >= 4, "R16.1", "importSrc/cycle-mark", ic.pos(mark.Pos()), fmt.Sprintf("test, then mark, then %d loading/recursing calls", len(sinks)),
		fmt.Sprintf("importSrc: the cycle mark is not set after the cycle test and before the calls that can recurse (test dominates mark: %v; calls not dominated by the mark: %v): a cycle recurses until the stack overflows, or an acyclic import is reported as a cycle", d1, late))
	// the mark says "being imported": it is removed when importSrc returns, on every path (a
	// deferred delete under the same key, registered right after the mark, or a delete passed
	// by every path from the mark to an exit). A mark left behind by a failed import makes a
	// later import of the (repaired) package an "import cycle".
	{
		mk := ""
		for _, l := range mark.Lhs {
			if ix, ok := unparen(l).(*ast.IndexExpr); ok && selField(ic.Info, ix.X) == rdir {
				mk = types.ExprString(ix.Index)
			}
		}
		isDelete := func(c *ast.CallExpr) bool {
			if id, ok := c.Fun.(*ast.Ident); !ok || id.Name != "delete" || len(c.Args) != 2 {
				return false
			}
			return selField(ic.Info, c.Args[0]) == rdir && types.ExprString(c.Args[1]) == mk
		}
		cleared := false
		ast.Inspect(is.Decl.Body, func(n ast.Node) bool {
			if ds, ok := n.(*ast.DeferStmt); ok {
				if isDelete(ds.Call) {
					if d, ok := fg.dominates(mark, ds); ok && d {
						cleared = true
					}
				}
				if fl, ok := ds.Call.Fun.(*ast.FuncLit); ok {
					for _, c := range allCalls(fl.Body) {
						if isDelete(c) {
							cleared = true
						}
					}
				}
			}
			return true
		})
		if !cleared {
			leak, _ := fg.exitsWithout(mark, func(n ast.Node) bool {
				found := false
				ast.Inspect(n, func(k ast.Node) bool {
					if c, ok := k.(*ast.CallExpr); ok && isDelete(c) {
						found = true
					}
					return true
				})
				return found
			})
			cleared = !leak
		}
		r.Check(cleared, "R16.1", "importSrc/cycle-mark-removed", ic.pos(mark.Pos()), "the in-progress mark is removed when importSrc returns",
			"importSrc sets the in-progress mark "+types.ExprString(mark.Lhs[0])+" and can return without removing it: after an import that failed (a compile error in the package), importing the package again - once repaired, or from another Eval - is reported as \"import cycle not allowed\" although nothing is being imported")
	}
	// (c) relative branch
	nameFld := ic.field("Interpreter", "name")
	var relIf *ast.IfStmt
	ast.Inspect(is.Decl.Body, func(n ast.Node) bool {
		if ifs, ok := n.(*ast.IfStmt); ok {
			if call, ok := unparen(ifs.Cond).(*ast.CallExpr); ok && isCallTo(ic.Info, call, "interp.isPathRelative") {
				relIf = ifs
			}
		}
		return true
	})
	if relIf == nil {
		r.Fail("R16.1", "importSrc/relative-branch", ic.pos(is.Decl.Pos()), "importSrc has no branch for relative import paths")
		return
	}
	okRel := false
	ast.Inspect(relIf.Body, func(n ast.Node) bool {
		if call, ok := n.(*ast.CallExpr); ok && isCallTo(ic.Info, call, "path/filepath.Dir") && len(call.Args) == 1 && selField(ic.Info, call.Args[0]) == nameFld && nameFld != nil {
			okRel = true
		}
		return true
	})
	usesPkgDir := len(callsIn(ic.Info, relIf.Body, false, "interp.Interpreter.pkgDir")) > 0
	r.Check(okRel && !usesPkgDir, "R16.1", "importSrc/relative-branch", ic.pos(relIf.Pos()), "relative imports resolve against filepath.Dir(interp.name)",
		"the relative-import branch does not build the directory from the importing file's directory (filepath.Dir(interp.name)), or goes through the GOPATH/vendor search")
	// the root that locates this package is the root handed on to the packages it imports: the
	// path element joined into the directory on the relative branch is the very variable (the
	// rPath parameter, normalised in place) that the rest of importSrc passes on to
	// effectivePkg / gta. A normalised local copy leaves nested relative imports with the raw root.
	{
		var rootParam types.Object
		if ps := is.Decl.Type.Params.List; len(ps) > 0 && len(ps[0].Names) > 0 {
			rootParam = ic.Info.ObjectOf(ps[0].Names[0])
		}
		var joined []types.Object
		ast.Inspect(relIf.Body, func(n ast.Node) bool {
			if call, ok := n.(*ast.CallExpr); ok && isCallTo(ic.Info, call, "path/filepath.Join") {
				for _, a := range call.Args {
					if id, ok := unparen(a).(*ast.Ident); ok {
						if v, ok := ic.Info.ObjectOf(id).(*types.Var); ok && types.Identical(v.Type(), types.Typ[types.String]) {
							joined = append(joined, v)
						}
					}
				}
			}
			return true
		})
		usedLater := false
		ast.Inspect(is.Decl.Body, func(n ast.Node) bool {
			if call, ok := n.(*ast.CallExpr); ok && call.Pos() > relIf.End() && isCallTo(ic.Info, call, "interp.effectivePkg", "interp.Interpreter.gta", "interp.Interpreter.gtaRetry") {
				for _, a := range call.Args {
					if id, ok := unparen(a).(*ast.Ident); ok && ic.Info.ObjectOf(id) == rootParam {
						usedLater = true
					}
				}
			}
			return true
		})
		if rootParam != nil && usedLater {
			same := false
			for _, j := range joined {
				if j == rootParam {
					same = true
				}
			}
			r.Check(same, "R16.1", "importSrc/relative-branch/root-handed-on", ic.pos(relIf.Pos()), "the root joined into the directory is the root handed on to nested imports",
				"on the relative-import branch the directory is built from a local copy of the root while the rest of importSrc hands the unnormalised "+rootParam.Name()+" on to the imports of that package: a relative import made by a relatively imported package resolves against the wrong directory")
		}
	}
}

func c16R2(ic *IC, r *Report) {
	fi := ic.fn(r, "Interpreter.pkgDir")
	if fi == nil {
		return
	}
	fg := buildFlow(fi.Decl.Body, ic.Info)
	stats := callsIn(ic.Info, fi.Decl.Body, false, "io/fs.Stat")
	if len(stats) < 2 {
		r.Fail("R16.2", "pkgDir/candidates", ic.pos(fi.Decl.Pos()), fmt.Sprintf("pkgDir examines %d candidates with fs.Stat; the vendor candidate and the plain candidate are expected", len(stats)))
		return
	}
	// which Stat examines a path derived from the literal/const "vendor"?
	defs := map[types.Object][]ast.Expr{}
	ast.Inspect(fi.Decl.Body, func(n ast.Node) bool {
		if as, ok := n.(*ast.AssignStmt); ok && len(as.Lhs) == len(as.Rhs) {
			for i, l := range as.Lhs {
				if id, ok := l.(*ast.Ident); ok {
					defs[ic.Info.ObjectOf(id)] = append(defs[ic.Info.ObjectOf(id)], as.Rhs[i])
				}
			}
		}
		return true
	})
	fgReachDef := func(arg ast.Expr, call *ast.CallExpr) bool {
		// does the definition of arg that reaches `call` mention vendor?
		var mentions func(e ast.Expr, depth int, before ast.Node) bool
		mentions = func(e ast.Expr, depth int, before ast.Node) bool {
			found := false
			ast.Inspect(e, func(n ast.Node) bool {
				switch x := n.(type) {
				case *ast.BasicLit:
					if strings.Trim(x.Value, `"`) == "vendor" {
						found = true
					}
				case *ast.Ident:
					if c, ok := ic.Info.Uses[x].(*types.Const); ok && c.Val().ExactString() == `"vendor"` {
						found = true
					}
					if v, ok := ic.Info.Uses[x].(*types.Var); ok && depth < 4 {
						// the last definition of v that dominates `before`
						var last ast.Expr
						for _, d := range defs[v] {
							if dm, _ := fg.dominates(d, before); dm {
								last = d
							}
						}
						if last != nil && mentions(last, depth+1, last) {
							found = true
						}
					}
				}
				return true
			})
			return found
		}
		return mentions(arg, 0, call)
	}
	var vendorStat, plainStat *ast.CallExpr
	for _, s := range stats {
		if len(s.Args) != 2 {
			continue
		}
		if fgReachDef(s.Args[1], s) {
			if vendorStat == nil {
				vendorStat = s
			}
		} else if plainStat == nil {
			plainStat = s
		}
	}
	if vendorStat == nil || plainStat == nil {
		r.Fail("R16.2", "pkgDir/vendor-first", ic.pos(fi.Decl.Pos()), "undecided: could not identify the vendor candidate and the plain candidate among the fs.Stat calls of pkgDir")
		return
	}
	d, _ := fg.dominates(vendorStat, plainStat)
	r.Check(d, "R16.2", "pkgDir/vendor-first", ic.pos(vendorStat.Pos()), "the vendor candidate is examined before the GOPATH/src candidate",
		"pkgDir examines the plain candidate before the vendor candidate: a vendored copy no longer takes precedence over GOPATH/src")
	// recursion through previousRoot
	prev := callsIn(ic.Info, fi.Decl.Body, false, "interp.previousRoot")
	rec := callsIn(ic.Info, fi.Decl.Body, false, "interp.Interpreter.pkgDir")
	okRec := false
	if len(prev) == 1 && len(rec) == 1 && len(rec[0].Args) == 3 {
		// the root passed to the recursive call is the result of previousRoot
		if id, ok := unparen(rec[0].Args[1]).(*ast.Ident); ok {
			for _, dexp := range defs[ic.Info.ObjectOf(id)] {
				_ = dexp
			}
			p := enclosingPath(fi.Decl.Body, prev[0])
			if len(p) >= 2 {
				if as, ok := p[len(p)-2].(*ast.AssignStmt); ok {
					if lid, ok := as.Lhs[0].(*ast.Ident); ok && ic.Info.ObjectOf(lid) == ic.Info.ObjectOf(id) {
						okRec = true
					}
				}
			}
		}
		if dd, _ := fg.dominates(plainStat, rec[0]); !dd {
			okRec = false
		}
	}
	r.Check(okRec, "R16.2", "pkgDir/walks-up", ic.pos(fi.Decl.Pos()), "after both candidates failed, the search continues from previousRoot(root)",
		"pkgDir does not continue the search from the root returned by previousRoot after both candidates failed: enclosing vendor directories are not searched")
	// the filesystem handed to previousRoot is the interpreter's
	fsFld := ic.field("opt", "filesystem")
	okFS := len(prev) == 1 && len(prev[0].Args) >= 1 && selField(ic.Info, prev[0].Args[0]) == fsFld && fsFld != nil
	r.Check(okFS, "R16.2", "pkgDir/previousRoot-filesystem", ic.pos(fi.Decl.Pos()), "previousRoot searches the interpreter's filesystem", "previousRoot is not given the interpreter's filesystem: vendor directories are looked up on the real disk even when sources come from Options.SourcecodeFilesystem")
}

func c16R3(ic *IC, r *Report) {
	is := ic.fn(r, "Interpreter.importSrc")
	if is == nil {
		return
	}
	fsFld := ic.field("opt", "filesystem")
	// direct-call closure within the package, restricted to the import machinery (src.go role):
	// functions reachable by direct calls from importSrc that are not the compile passes.
	stop := map[string]bool{"Interpreter.gta": true, "Interpreter.gtaRetry": true, "Interpreter.cfg": true, "Interpreter.run": true, "genRun": true, "genGlobalVars": true, "Interpreter.ast": true, "Interpreter.parse": true, "Interpreter.resizeFrame": true}
	seen := map[*types.Func]bool{is.Obj: true}
	q := []*types.Func{is.Obj}
	// the exported entry points taking a path read their file the same way (EvalPath,
	// CompilePath and their context variants are siblings)
	for _, name := range sortedKeys(ic.F) {
		fi := ic.F[name]
		if fi.Obj != nil && fi.Decl.Recv != nil && strings.HasPrefix(name, "Interpreter.") && fi.Decl.Name.IsExported() && strings.Contains(fi.Decl.Name.Name, "Path") && !seen[fi.Obj] {
			seen[fi.Obj] = true
			q = append(q, fi.Obj)
		}
	}
	for _, s := range []string{"Interpreter.compileSrc", "Interpreter.eval", "Interpreter.Execute", "Interpreter.stop", "Interpreter.Eval", "Interpreter.Compile"} {
		stop[s] = true
	}
	var fns []*FuncInfo
	for len(q) > 0 {
		f := q[0]
		q = q[1:]
		fi := ic.G.Funcs[f]
		if fi == nil || fi.Decl.Body == nil {
			continue
		}
		fns = append(fns, fi)
		ast.Inspect(fi.Decl.Body, func(n ast.Node) bool {
			if call, ok := n.(*ast.CallExpr); ok {
				if g, ok := calleeOf(ic.Info, call).(*types.Func); ok && g.Pkg() == ic.Pk.Types && !seen[g] && ic.G.Funcs[g] != nil && !stop[funcName(ic.G.Funcs[g].Decl)] {
					seen[g] = true
					q = append(q, g)
				}
			}
			return true
		})
	}
	var names []string
	nAccess := 0
	for _, fi := range fns {
		name := funcName(fi.Decl)
		names = append(names, name)
		// parameters of type fs.FS count as the interpreter's filesystem when every caller passes it (checked in R16.2 for previousRoot)
		fsParams := map[types.Object]bool{}
		for _, p := range fi.Decl.Type.Params.List {
			if types.TypeString(ic.Info.TypeOf(p.Type), nil) == "io/fs.FS" {
				for _, nm := range p.Names {
					fsParams[ic.Info.ObjectOf(nm)] = true
				}
			}
		}
		var bad []string
		ast.Inspect(fi.Decl.Body, func(n ast.Node) bool {
			call, ok := n.(*ast.CallExpr)
			if !ok {
				return true
			}
			f, _ := calleeOf(ic.Info, call).(*types.Func)
			if f == nil || f.Pkg() == nil {
				return true
			}
			switch f.Pkg().Path() {
			case "io/fs":
				switch f.Name() {
				case "ReadDir", "ReadFile", "Stat", "Glob", "WalkDir", "Sub":
					nAccess++
					okArg := false
					if len(call.Args) > 0 {
						if selField(ic.Info, call.Args[0]) == fsFld && fsFld != nil {
							okArg = true
						}
						if id, ok := unparen(call.Args[0]).(*ast.Ident); ok && fsParams[ic.Info.ObjectOf(id)] {
							okArg = true
						}
					}
					if !okArg {
						bad = append(bad, "fs."+f.Name()+" on "+types.ExprString(call.Args[0])+" at "+ic.pos(call.Pos()))
					}
				}
			case "os":
				switch f.Name() {
				case "Open", "OpenFile", "ReadFile", "ReadDir", "Stat", "Lstat", "DirFS":
					bad = append(bad, "os."+f.Name()+" at "+ic.pos(call.Pos()))
				}
			case "io/ioutil":
				bad = append(bad, "ioutil."+f.Name()+" at "+ic.pos(call.Pos()))
			case "path/filepath":
				switch f.Name() {
				case "Walk", "WalkDir", "Glob", "EvalSymlinks":
					bad = append(bad, "filepath."+f.Name()+" at "+ic.pos(call.Pos()))
				}
			}
			return true
		})
		r.Check(len(bad) == 0, "R16.3", name+"/filesystem", ic.pos(fi.Decl.Pos()), "file accesses go through the interpreter's filesystem",
			name+" accesses files outside the interpreter's filesystem abstraction: "+strings.Join(bad, "; ")+": imports resolve differently on disk and through Options.SourcecodeFilesystem")
	}
	r.Info["import_machinery_functions"] = names
	if nAccess < 4 {
		r.Errorf("R16.3: only %d io/fs accesses found under importSrc", nAccess)
	}
}

// c16R2b: previousRoot. For a root that is neither the main package nor itself a vendor
// directory, the closest vendor directory among the ancestors takes priority: the upward
// search (fs.Stat of <ancestor>/vendor) must have been made before the function falls back to
// cutting the root at its last "vendor" component. Decided on the flow graph pruned by the
// assumption root != mainID && final != vendor: no successful return is reachable from the
// entry without passing a block that calls fs.Stat.
func c16R2b(ic *IC, r *Report) {
	fi := ic.fn(r, "previousRoot")
	if fi == nil {
		return
	}
	info := ic.Info
	isConstOrVar := func(e ast.Expr, names ...string) bool {
		id, ok := unparen(e).(*ast.Ident)
		if !ok {
			return false
		}
		for _, n := range names {
			if id.Name == n {
				return true
			}
		}
		return false
	}
	atom := func(e ast.Expr) int {
		be, ok := e.(*ast.BinaryExpr)
		if !ok || (be.Op != token.EQL && be.Op != token.NEQ) {
			return triUnknown
		}
		res := triUnknown
		// root == mainID, final == vendor: false under the assumption
		if (isConstOrVar(be.X, "root") && isConstOrVar(be.Y, "mainID")) || (isConstOrVar(be.X, "final") && isConstOrVar(be.Y, "vendor")) {
			res = triFalse
		}
		if res != triUnknown && be.Op == token.NEQ {
			res = 1 - res
		}
		return res
	}
	g := cfg.New(fi.Decl.Body, func(c *ast.CallExpr) bool { return !noReturn(info, c) })
	hasStat := func(b *cfg.Block) bool {
		for _, n := range b.Nodes {
			if len(callsIn(info, n, false, "io/fs.Stat")) > 0 {
				return true
			}
		}
		return false
	}
	nStat := 0
	for _, b := range g.Blocks {
		if hasStat(b) {
			nStat++
		}
	}
	if nStat == 0 {
		r.Fail("R16.2", "previousRoot/closest-vendor-first", ic.pos(fi.Decl.Pos()), "previousRoot never looks for a vendor directory among the ancestors of the root (no fs.Stat): a package inside a vendored module does not see that module's own vendor directory")
		return
	}
	seen := map[*cfg.Block]bool{}
	var early []string
	var walk func(b *cfg.Block)
	walk = func(b *cfg.Block) {
		if seen[b] || hasStat(b) {
			return
		}
		seen[b] = true
		for _, n := range b.Nodes {
			if rs, ok := n.(*ast.ReturnStmt); ok && len(rs.Results) == 2 {
				if id, ok := unparen(rs.Results[1]).(*ast.Ident); ok && id.Name == "nil" {
					early = append(early, "return "+types.ExprString(rs.Results[0])+" at "+ic.pos(rs.Pos()))
				}
			}
		}
		if len(b.Succs) == 2 && len(b.Nodes) > 0 {
			if cond, ok := b.Nodes[len(b.Nodes)-1].(ast.Expr); ok {
				switch evalCond(cond, atom) {
				case triTrue:
					walk(b.Succs[0])
					return
				case triFalse:
					walk(b.Succs[1])
					return
				}
			}
		}
		for _, s := range b.Succs {
			walk(s)
		}
	}
	if len(g.Blocks) > 0 {
		walk(g.Blocks[0])
	}
	r.Check(len(early) == 0, "R16.2", "previousRoot/closest-vendor-first", ic.pos(fi.Decl.Pos()), "for an ordinary root every result is computed after the upward search for a vendor directory",
		"for a root that is neither main nor a vendor directory, previousRoot can answer ("+strings.Join(early, "; ")+") before it has looked for a vendor directory among the root's ancestors: the nearest enclosing vendor directory is skipped and the import resolves to an outer vendor directory or to GOPATH")
}

// c16R4: the root handed on to the imports of a package found by the GOPATH/vendor search is
// the root returned by the very search that found it (pkgDir returns the directory together
// with the root it was found under, e.g. foo/vendor): nested imports then start from the
// package's own vendor directory. In importSrc, the first argument of effectivePkg originates
// (SSA) only in: the second result of a pkgDir call (directly or through an in-package helper
// whose second result has that origin on every successful return), the root parameter itself,
// or a constant (the normalisation of the relative branch).
func c16R4(ic *IC, r *Report) {
	fn := ic.ssaMeth("Interpreter", "importSrc")
	pkgDir := ic.ssaMeth("Interpreter", "pkgDir")
	if fn == nil || pkgDir == nil {
		r.Errorf("anchor not resolved: (*Interpreter).importSrc / pkgDir (SSA)")
		return
	}
	var classify func(v ssa.Value, depth int) (ok bool, why string)
	classify = func(v ssa.Value, depth int) (bool, string) {
		for _, o := range origins(v, map[ssa.Value]bool{}) {
			switch x := o.(type) {
			case *ssa.Const:
				continue
			case *ssa.Parameter:
				if types.Identical(x.Type(), types.Typ[types.String]) {
					continue
				}
				return false, "parameter " + x.Name()
			case *ssa.Extract:
				call, isCall := x.Tuple.(*ssa.Call)
				if !isCall {
					return false, describeValue(o)
				}
				callee := call.Call.StaticCallee()
				if callee == pkgDir {
					if x.Index == 1 {
						continue
					}
					return false, fmt.Sprintf("result #%d of pkgDir", x.Index)
				}
				if callee != nil && callee.Pkg == fn.Pkg && depth < 3 && len(callee.Blocks) > 0 {
					// helper: the same result index of every return
					allOK, firstWhy := true, ""
					nret := 0
					for _, b := range callee.Blocks {
						for _, ins := range b.Instrs {
							ret, isRet := ins.(*ssa.Return)
							if !isRet || x.Index >= len(ret.Results) {
								continue
							}
							nret++
							// an error return (last result a non-nil error constant is not decidable here): classify anyway
							if ok, why := classify(ret.Results[x.Index], depth+1); !ok {
								allOK, firstWhy = false, why
							}
						}
					}
					if nret > 0 && allOK {
						continue
					}
					return false, "result #" + fmt.Sprint(x.Index) + " of " + ssaFuncName(callee) + " (" + firstWhy + ")"
				}
				name := "a dynamic call"
				if callee != nil {
					name = ssaFuncName(callee)
				}
				return false, fmt.Sprintf("result #%d of %s", x.Index, name)
			default:
				return false, describeValue(o)
			}
		}
		return true, ""
	}
	n := 0
	for _, b := range fn.Blocks {
		for _, ins := range b.Instrs {
			call, ok := ins.(*ssa.Call)
			if !ok {
				continue
			}
			callee := call.Call.StaticCallee()
			if callee == nil || ssaFuncName(callee) != "effectivePkg" || len(call.Call.Args) < 1 {
				continue
			}
			n++
			ok2, why := classify(call.Call.Args[0], 0)
			r.Check(ok2, "R16.4", fmt.Sprintf("importSrc/root-of-the-found-package#%d", n), ic.pos(call.Pos()), "the root handed on is the one returned by the search that found the directory",
				"the root importSrc hands on to the imports of the package (first argument of effectivePkg) can come from "+why+" instead of the root returned by pkgDir with the directory: the imports of a package found under foo/vendor are then searched from foo, so the vendor directory nested in that dependency is never looked at")
		}
	}
	if n == 0 {
		r.Errorf("R16.4: no call of effectivePkg found in importSrc")
	}
}

// c16R5: the ancestor walk of previousRoot probes <dir>/vendor for every directory from the
// importer's parent up to the first element under GOPATH/src, and stops when <dir> itself has
// reached the source root. In the loop that calls fs.Stat on Join(<dir>, vendor), every break
// that is decided by a comparison with the source root compares the walked directory itself
// (the variable joined into the probed path) - a comparison of filepath.Dir(<dir>) or of
// another derived value stops one level early and never looks at GOPATH/src/<top>/vendor.
func c16R5(ic *IC, r *Report) {
	fi := ic.fn(r, "previousRoot")
	if fi == nil {
		return
	}
	info := ic.Info
	n := 0
	ast.Inspect(fi.Decl.Body, func(m ast.Node) bool {
		loop, ok := m.(*ast.ForStmt)
		if !ok {
			return true
		}
		// the walked directory: first argument of filepath.Join inside the fs.Stat call
		var dir types.Object
		for _, c := range callsIn(info, loop.Body, false, "io/fs.Stat", "os.Stat", "os.Lstat") {
			for _, j := range callsIn(info, c, true, "path/filepath.Join") {
				if len(j.Args) > 0 {
					if id := identOf(j.Args[0]); id != nil {
						dir = info.ObjectOf(id)
					}
				}
			}
		}
		if dir == nil {
			return true
		}
		// the source root: a local compared with the directory somewhere in the loop
		ast.Inspect(loop.Body, func(k ast.Node) bool {
			ifs, ok := k.(*ast.IfStmt)
			if !ok {
				return true
			}
			breaks := false
			for _, st := range ifs.Body.List {
				if b, ok := st.(*ast.BranchStmt); ok && b.Tok == token.BREAK {
					breaks = true
				}
			}
			if !breaks {
				return true
			}
			// every comparison with the source root inside the condition (disjuncts included)
			ast.Inspect(ifs.Cond, func(q ast.Node) bool {
				be, ok := q.(*ast.BinaryExpr)
				if !ok || be.Op != token.EQL {
					return true
				}
				lid, rid := identOf(be.X), identOf(be.Y)
				var other ast.Expr
				switch {
				case rid != nil && rid.Name == "prefix":
					other = be.X
				case lid != nil && lid.Name == "prefix":
					other = be.Y
				default:
					return true
				}
				n++
				oid := identOf(other)
				r.Check(oid != nil && info.ObjectOf(oid) == dir, "R16.5", fmt.Sprintf("previousRoot/stop-at-the-source-root#%d", n), ic.pos(be.Pos()), "the walk stops when the probed directory itself is the source root",
					"the ancestor walk of previousRoot stops on "+types.ExprString(be)+" (in "+types.ExprString(ifs.Cond)+"), which does not compare the probed directory "+dir.Name()+" itself with the source root: the walk ends one level early and the vendor directory of a first-level project (GOPATH/src/<top>/vendor) is never probed for importers two or more levels below it")
				return true
			})
			return true
		})
		return false
	})
	if n == 0 {
		r.Errorf("R16.5: no break decided by a comparison with the source root found in the ancestor walk of previousRoot")
	}
}

// c16R6: the root under which the imports of the package being loaded are resolved is what
// importSrc hands to gta (second parameter). A relative import resolves to
// Dir(input file)/root/importPath, so the root of a package reached through "../x" must keep
// its ".." elements: effectivePkg joins the import path to the importer's root, filepath.Rel
// computes them; strings.TrimPrefix(dir, base) yields a relative path only while dir lies
// below base (round-5 seed: a chain of two relative imports, the first leaving the directory
// of the input file).
func c16R6(ic *IC, r *Report) {
	fn := ic.ssaMeth("Interpreter", "importSrc")
	gta := ic.ssaMeth("Interpreter", "gta")
	if fn == nil || gta == nil {
		r.Errorf("anchor not resolved: (*Interpreter).importSrc / gta (SSA)")
		return
	}
	n := 0
	for _, b := range fn.Blocks {
		for _, ins := range b.Instrs {
			call, ok := ins.(*ssa.Call)
			if !ok || call.Call.StaticCallee() != gta || len(call.Call.Args) < 3 {
				continue
			}
			n++
			bad := ""
			for _, o := range origins(call.Call.Args[2], map[ssa.Value]bool{}) {
				switch x := o.(type) {
				case *ssa.Call:
					if c := x.Call.StaticCallee(); c != nil && ssaFuncName(c) == "effectivePkg" {
						continue
					}
					bad = describeValue(o)
				case *ssa.Extract:
					if c, isCall := x.Tuple.(*ssa.Call); isCall && x.Index == 0 {
						if f := c.Call.StaticCallee(); f != nil && f.Pkg != nil && f.Pkg.Pkg.Path() == "path/filepath" && f.Name() == "Rel" {
							continue
						}
					}
					bad = describeValue(o)
				default:
					bad = describeValue(o)
				}
			}
			r.Check(bad == "", "R16.6", fmt.Sprintf("importSrc/root-handed-to-the-imports#%d", n), ic.pos(call.Pos()), "the root handed to gta comes from effectivePkg (or filepath.Rel)",
				"the root under which importSrc resolves the imports of the package it loads (second argument of gta) can come from "+bad+": a relative import made by a package that was itself reached through ../ then resolves against another directory than the importing file's")
		}
	}
	if n == 0 {
		r.Errorf("R16.6: no call of gta found in importSrc")
	}
}

// c16R7: identity of the import-once test. "Each package is evaluated exactly once however many
// importers it has" and "a relative import resolves against the importing file's directory"
// both require the key of the table of loaded packages to be a function of the directory the
// import resolves to. A key that is the import path string as written conflates ./util of two
// directories, and loads twice a directory reached as ./a and ../a. (K14)
func c16R7(ic *IC, r *Report) {
	fn := ic.ssaMeth("Interpreter", "importSrc")
	if fn == nil {
		r.Errorf("anchor not resolved: (*Interpreter).importSrc (SSA)")
		return
	}
	n := 0
	for _, b := range fn.Blocks {
		for _, ins := range b.Instrs {
			lk, ok := ins.(*ssa.Lookup)
			if !ok {
				continue
			}
			ld, ok := lk.X.(*ssa.UnOp)
			if !ok || ld.Op != token.MUL {
				continue
			}
			fa, ok := ld.X.(*ssa.FieldAddr)
			if !ok {
				continue
			}
			st, ok := fa.X.Type().Underlying().(*types.Pointer).Elem().Underlying().(*types.Struct)
			if !ok || st.Field(fa.Field).Name() != "srcPkg" {
				continue
			}
			n++
			bare := ""
			for _, o := range origins(lk.Index, map[ssa.Value]bool{}) {
				if p, ok := o.(*ssa.Parameter); ok {
					bare = p.Name()
				}
			}
			r.Check(bare == "", "R16.7", "importSrc/import-once-key-identifies-the-directory", ic.pos(lk.Pos()), "the import-once key is derived from the resolved directory",
				"importSrc tests whether a package is already loaded under the key "+bare+", the import path as written in the importing file: \"./util\" imported from two directories is one package (the second importer gets the first one's), and one directory imported as \"./a\" and \"../a\" is evaluated twice")
		}
	}
	if n == 0 {
		r.Errorf("R16.7: no lookup in Interpreter.srcPkg found in importSrc")
	}
}

func init() {
	ruleText["R16.9"] = "a package is marked 'being imported' only while importSrc works on it: the removal of the mark (a deferred delete of Interpreter.rdir[importPath]) is registered right after the mark is set - no return statement lies between the store rdir[importPath] = true and the defer - so a failed import (package not found, unreadable directory) never leaves the mark behind for the next importer to take for an import cycle"
}

// c16R9: round-7 seed. The cycle test and the mark were moved before the resolution of the
// directory, the deferred removal stayed after it: an import that failed to locate its package
// left it marked, and the next importer that could see it got "import cycle not allowed".
func c16R9(ic *IC, r *Report) {
	info := ic.Info
	fi := ic.fn(r, "Interpreter.importSrc")
	if fi == nil {
		return
	}
	rdir := ic.field("Interpreter", "rdir")
	var store *ast.AssignStmt
	var unmark *ast.DeferStmt
	ast.Inspect(fi.Decl.Body, func(q ast.Node) bool {
		switch y := q.(type) {
		case *ast.AssignStmt:
			for _, l := range y.Lhs {
				if ix, ok := unparen(l).(*ast.IndexExpr); ok && selField(info, ix.X) == rdir && store == nil {
					store = y
				}
			}
		case *ast.DeferStmt:
			del := false
			ast.Inspect(y.Call, func(z ast.Node) bool {
				if c, ok := z.(*ast.CallExpr); ok {
					if id := identOf(c.Fun); id != nil && id.Name == "delete" && len(c.Args) == 2 && selField(info, c.Args[0]) == rdir {
						del = true
					}
				}
				return true
			})
			if del && unmark == nil {
				unmark = y
			}
		}
		return true
	})
	if store == nil {
		r.Errorf("R16.9: the store into Interpreter.rdir was not found in importSrc")
		return
	}
	why := ""
	switch {
	case unmark == nil:
		why = "no deferred delete of the mark is registered"
	case unmark.Pos() < store.Pos():
		// registered before the mark is set: fine as well (it runs on every exit)
	default:
		ast.Inspect(fi.Decl.Body, func(q ast.Node) bool {
			if _, ok := q.(*ast.FuncLit); ok {
				return false
			}
			if rs, ok := q.(*ast.ReturnStmt); ok && rs.Pos() > store.End() && rs.Pos() < unmark.Pos() {
				why = "the return at " + ic.pos(rs.Pos()) + " lies between the mark (" + ic.pos(store.Pos()) + ") and the registration of its removal (" + ic.pos(unmark.Pos()) + ")"
			}
			return true
		})
	}
	r.Check(why == "", "R16.9", "importSrc/mark-removed-on-every-exit", ic.pos(store.Pos()), "the removal of the mark is registered right after the mark",
		"importSrc can leave a package marked as being imported: "+why+". The next import of that package - by an importer that can locate it, through its own vendor directory for instance - is rejected with 'import cycle not allowed' although nothing is being imported")
}
