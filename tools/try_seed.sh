#!/bin/bash
# try_seed.sh <patch> <prop>... : applies a seeded change to /repo, runs the given checks, undoes it.
P=$1; shift
cd /repo && git diff --quiet || { echo "/repo has local changes"; exit 2; }
git apply $P || { echo APPLY-FAILED; exit 2; }
for p in "$@"; do /verif/check.sh check $p --no-evidence 2>&1 | grep -v "^  C.. R.*obligations=" | cut -c1-330; done
git -C /repo checkout -- . && git -C /repo clean -fdq
