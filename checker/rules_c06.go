package main

import (
	"fmt"
	"go/ast"
	"go/constant"
	"go/token"
	"go/types"
	"sort"
	"strings"

	"golang.org/x/tools/go/ssa"
)

func init() {
	register("C06", &propMeta{
		Level: "other",
		Explanation: "Structural clauses of panic/defer/recover handling in package interp: " +
			"R06.1 on the static call graph every path from an exported *Interpreter method (and from every goroutine such a method starts) to the execution loop passes a function whose deferred recover does not re-panic; " +
			"R06.2 every store to frame.deferred is a prepend of one record and the only consumer ranges forward once, calling element 0 with elements 1..; " +
			"R06.3 argument values recorded by a defer statement are fixed copies made when the statement executes; " +
			"R06.4 the unwinding function recovers, then runs the deferred records, then re-panics conditionally, and recover() consumes the caller frame's panic value; " +
			"R06.5 converting recovers store an interp.Panic carrying the recovered value into the error result; R06.7 each deferred record runs under its own recover; R06.8 the generator of recover stores its result on every path. Which faults reflect raises is trusted.",
		Assumptions: []string{"dynamic calls through fields/slices/interfaces are not followed by the call graph (the execution loop itself is the sink, so run-time closures are covered through it)", "reflect raises ordinary Go panics for run-time faults"},
		Run:         runC06,
	})
	ruleText["R06.1"] = "no call-graph path from an exported *Interpreter method, or from a goroutine it starts, to runCfg avoids every function with a deferred, non-re-panicking recover()"
	ruleText["R06.2"] = "every assignment to frame.deferred is append([][]reflect.Value{rec}, <same frame>.deferred...); the unwinding function ranges forward over frame.deferred once and calls rec[0].Call(rec[1:]); nothing else reads the records"
	ruleText["R06.3"] = "in every closure recording a deferred call, elements 1.. of the record are fresh copies (reflect.New(T).Elem()+Set, or a copier function), never the aliasing result of a value generator"
	ruleText["R06.4"] = "in the unwinding function: recovered = recover() dominates the loop over deferred records, which dominates the conditional panic(recovered); the recover builtin reads and clears frame.anc.recovered"
	ruleText["R06.7"] = "the unwinding loop invokes each deferred record through a function that has its own deferred, non-re-panicking recover, so that a panic in one deferred call does not skip the others"
	ruleText["R06.6"] = "same analysis as C01/R01.4: copyNode copies or re-initialises every node field the AST builder sets, so that defer/recover/panic statements inside instantiated generic functions are compiled like the same statements elsewhere"
	ruleText["R06.8"] = "same analysis as C01/R01.8 on the generator of recover: every path of its run-time closure that continues execution stores the call's result, so a recover() executed again in the same activation does not yield the previous panic value"
	ruleText["R06.9"] = "same analysis as C08/R08.1: no run-time closure writes a variable captured from its generator (deferred-call wrappers and records are per execution)"
	ruleText["R06.10"] = "in the deferred function of runCfg and its in-package callees (callDeferred and Walk excepted), every constant index X.child[k] lies under a test of X.kind or len(X.child) (enclosing if/switch/case, left operand of &&, or an earlier guard that leaves the block)"
	ruleText["R06.11"] = "in every generator containing reflect.Value.CallSlice, each run-time closure that appends to frame.deferred also contains a CallSlice call (the ellipsis of f(s...) survives deferral)"
	ruleText["R06.12"] = "in every deferred recover, the store of the recovered value into frame.recovered lies under no condition on frame.recovered itself: a panic raised by a deferred function replaces the one in progress"
	ruleText["R06.15"] = "every path on the static call graph from an exported method of *Interpreter to a compile pass ((*Interpreter).ast, gta, cfg) passes a function with a deferred, non-re-panicking recover: a fault while compiling is an error of Eval/Compile, never a panic of the host"
	ruleText["R06.13"] = "in the closures of the generator of the panic builtin, panic(v) with v of static type reflect.Value lies under a condition on v.IsValid()/v.CanInterface(): otherwise the panic carries v.Interface()"
	ruleText["R06.14"] = "the generator bound in the universe table to each builtin Go allows in a defer statement (close, copy, delete, panic, print, println) calls the shared defer wrapper (the function testing deferStmt and recording into frame.deferred)"
	ruleText["R06.5"] = "a converting recover assigns Panic{Value: <recovered>, ...} to the error result of its function"
}

func runC06(c *Config, r *Report) {
	ic, err := loadInterp(c, true)
	if err != nil {
		r.Errorf("%v", err)
		return
	}
	c06R1(ic, r)
	c06R2(ic, r)
	c06R3(ic, r)
	c06R4(ic, r)
	c06R18(ic, r)
	c06R10(ic, r)
	c06R11(ic, r, "R06.11")
	c06R12(ic, r)
	c06R13(ic, r)
	c06R16(ic, r)
	c06R14(ic, r)
	// R06.6: defers, recover and panics inside instantiated generic code rest on the AST copy
	// being identical to a freshly built tree (same analysis as C01/R01.4).
	sub := newReport("C01")
	c01R4(ic, sub)
	for _, o := range sub.Obls {
		o.Rule = "R06.6"
		r.add(o)
	}
	r.Errors = append(r.Errors, sub.Errors...)
	// R06.8: recover() yields nil when no panic is in progress, also the second time the same
	// call is executed in an activation (same analysis as C01/R01.8, on the recover generator).
	c01R8(ic, r, "R06.8", map[string]bool{"_recover": true})
	// R06.9: the record of a deferred call, and the frame its callee gets, are built when the defer
	// statement executes: the run-time closures keep no per-statement mutable state (same analysis
	// as C08/R08.1). A wrapper cached across executions keeps the frame of the first activation,
	// so recover() called by the deferred function of a later activation returns nil.
	{
		sub9 := newReport("C08")
		c08R1(ic, sub9)
		for _, o := range sub9.Obls {
			o.Rule = "R06.9"
			r.add(o)
		}
		r.Errors = append(r.Errors, sub9.Errors...)
	}
}

func c06R1(ic *IC, r *Report) {
	g := buildSGraph(ic.SP)
	sink := ic.ssaFunc("runCfg")
	if sink == nil {
		r.Errorf("anchor not resolved: runCfg")
		return
	}
	// Entry points: exported methods of *Interpreter.
	var entries []*ssa.Function
	for _, f := range g.Funcs {
		if f.Parent() == nil && f.Signature.Recv() != nil && isNamed(f.Signature.Recv().Type(), "Interpreter") && token.IsExported(f.Name()) {
			entries = append(entries, f)
		}
	}
	sort.Slice(entries, func(i, j int) bool { return entries[i].Name() < entries[j].Name() })
	if len(entries) < 10 {
		r.Errorf("R06.1: only %d exported methods of *Interpreter found", len(entries))
	}
	reaching := 0
	var protectors []string
	for _, f := range g.Funcs {
		if d, ok := protector(f); ok {
			protectors = append(protectors, ssaFuncName(f)+" (defers "+ssaFuncName(d)+")")
		}
	}
	sort.Strings(protectors)
	r.Info["protectors"] = protectors
	for _, e := range entries {
		set, _ := g.reachSet(true, e)
		if !set[sink] {
			continue
		}
		reaching++
		key := "entry/" + e.Name()
		if p := g.unprotectedPath(e, sink, true); p != nil {
			r.Fail("R06.1", key, ic.pos(e.Pos()), "unprotected path to interpreted execution: "+strings.Join(p, " -> ")+": a panic raised by interpreted code on this path escapes to the host")
		} else {
			r.Pass("R06.1", key, ic.pos(e.Pos()), "every path to runCfg passes a converting recover")
		}
	}
	// Goroutines started by exported methods (closures only).
	nGo := 0
	for cl, parent := range g.GoRoots {
		top := parent
		for top.Parent() != nil {
			top = top.Parent()
		}
		if top.Signature.Recv() == nil || !token.IsExported(top.Name()) {
			continue
		}
		set, _ := g.reachSet(true, cl)
		if !set[sink] {
			continue
		}
		nGo++
		key := "goroutine/" + ssaFuncName(top)
		if p := g.unprotectedPath(cl, sink, true); p != nil {
			r.Fail("R06.1", key, ic.pos(cl.Pos()), "goroutine started by "+ssaFuncName(top)+" reaches interpreted execution without a converting recover inside the goroutine: "+strings.Join(p, " -> ")+": an uncaught panic there terminates the host process")
		} else {
			r.Pass("R06.1", key, ic.pos(cl.Pos()), "the goroutine recovers before reaching runCfg on every path")
		}
	}
	if reaching < 4 {
		r.Errorf("R06.1: only %d exported entry points reach runCfg on the static call graph (Eval, EvalPath, Execute, ... expected)", reaching)
	}
	// R06.15 (shared as R12.14): the same must-pass-through for the compile passes. An ill-typed
	// or unsupported program that makes a pass fault (the post-order callback of cfg re-panics
	// with the position) must come back from Eval/Compile as an error, not as a host panic.
	nComp := 0
	for _, sinkName := range [][2]string{{"Interpreter", "cfg"}, {"Interpreter", "gta"}, {"Interpreter", "ast"}} {
		cs := ic.ssaMeth(sinkName[0], sinkName[1])
		if cs == nil {
			r.Errorf("R06.15: anchor (*%s).%s not resolved", sinkName[0], sinkName[1])
			continue
		}
		for _, e := range entries {
			set, _ := g.reachSet(true, e)
			if !set[cs] {
				continue
			}
			// reachable otherwise than through the lazy type finalisation (frozen cut, see R08.5)?
			if !g.reachesCut(e, cs, runtimeReachCuts) {
				continue
			}
			nComp++
			key := "entry/" + e.Name() + "->" + sinkName[1]
			if p := g.unprotectedPathCut(e, cs, true, runtimeReachCuts); p != nil {
				r.Fail("R06.15", key, ic.pos(e.Pos()), "unprotected path to the compile pass: "+strings.Join(p, " -> ")+": a fault of the pass on an ill-typed or unsupported program (if 1 {}, []int{y} with y undefined, int(), var a [1<<64]int) is a panic of the host instead of an error returned by the entry point")
			} else {
				r.Pass("R06.15", key, ic.pos(e.Pos()), "every path to the pass goes through a converting recover")
			}
		}
	}
	if nComp < 6 {
		r.Errorf("R06.15: only %d (entry point, compile pass) pairs found on the static call graph", nComp)
	}
	r.Info["entry_points_reaching_execution"] = reaching
	r.Info["goroutine_roots_reaching_execution"] = nGo

	// R06.5: converting recovers build a Panic with the recovered value.
	panicT := ic.Pk.Types.Scope().Lookup("Panic")
	if panicT == nil {
		r.Errorf("anchor not resolved: type Panic")
		return
	}
	conv := 0
	for _, f := range g.Funcs {
		d, ok := protector(f)
		if !ok {
			continue
		}
		// Does the deferred function build a Panic?
		var rec ssa.Value
		for _, b := range d.Blocks {
			for _, ins := range b.Instrs {
				if c, ok := ins.(*ssa.Call); ok {
					if bi, ok := c.Call.Value.(*ssa.Builtin); ok && bi.Name() == "recover" {
						rec = c
					}
				}
			}
		}
		valueSet, stored := false, false
		for _, b := range d.Blocks {
			for _, ins := range b.Instrs {
				st, ok := ins.(*ssa.Store)
				if !ok {
					continue
				}
				if fa, ok := st.Addr.(*ssa.FieldAddr); ok {
					pt := fa.X.Type().Underlying().(*types.Pointer).Elem()
					if types.Identical(pt, panicT.Type()) && pt.Underlying().(*types.Struct).Field(fa.Field).Name() == "Value" {
						for _, o := range origins(st.Val, map[ssa.Value]bool{}) {
							if o == rec {
								valueSet = true
							}
						}
					}
				}
				if mi, ok := st.Val.(*ssa.MakeInterface); ok && types.Identical(mi.X.Type(), panicT.Type()) {
					if types.TypeString(mi.Type(), nil) == "error" {
						stored = true
					}
				}
			}
		}
		if !stored && !valueSet {
			continue // a protector of another kind (none today)
		}
		conv++
		r.Check(stored && valueSet, "R06.5", ssaFuncName(f)+"/converts", ic.pos(d.Pos()), "recovered value stored as Panic.Value and returned as error",
			"the recover of "+ssaFuncName(f)+" does not return Panic{Value: recovered} as the error result: the original panic value is lost")
	}
	if conv < 2 {
		r.Errorf("R06.5: %d converting recovers found (Execute and EvalWithContext expected)", conv)
	}
}

func c06R2(ic *IC, r *Report) {
	defFld := ic.field("frame", "deferred")
	if defFld == nil {
		r.Errorf("anchor not resolved: frame.deferred")
		return
	}
	stores := 0
	cnt := map[string]int{}
	reads := 0
	for _, name := range sortedKeys(ic.F) {
		fi := ic.F[name]
		if fi.Decl.Body == nil {
			continue
		}
		lhs := map[ast.Expr]bool{}
		ast.Inspect(fi.Decl.Body, func(n ast.Node) bool {
			switch x := n.(type) {
			case *ast.AssignStmt:
				for i, l := range x.Lhs {
					if selField(ic.Info, l) != defFld {
						continue
					}
					lhs[unparen(l)] = true
					stores++
					cnt[name]++
					key := fmt.Sprintf("%s/store#%d", name, cnt[name])
					okPrepend := false
					why := "not an append"
					if i < len(x.Rhs) {
						if call, ok := unparen(x.Rhs[i]).(*ast.CallExpr); ok {
							if id, ok := call.Fun.(*ast.Ident); ok && id.Name == "append" && len(call.Args) == 2 && call.Ellipsis.IsValid() {
								cl, isLit := unparen(call.Args[0]).(*ast.CompositeLit)
								tail := unparen(call.Args[1])
								switch {
								case !isLit || len(cl.Elts) != 1:
									why = "the first operand of append is not a one-element record list (new records must be prepended one at a time)"
								case selField(ic.Info, tail) != defFld || types.ExprString(tail) != types.ExprString(unparen(l)):
									why = "the appended tail is not the same frame's deferred list"
								default:
									okPrepend = true
								}
							}
						}
					}
					r.Check(okPrepend, "R06.2", key, ic.pos(x.Pos()), "prepend of one record", "store to frame.deferred in "+name+": "+why+"; deferred calls would not run last-in-first-out exactly once")
				}
			}
			return true
		})
		// Reads other than the lhs and the append tail.
		ast.Inspect(fi.Decl.Body, func(n ast.Node) bool {
			rs, ok := n.(*ast.RangeStmt)
			if ok && fieldOrLocalCopy(ic, fi.Decl.Body, rs.X, defFld) {
				reads++
				key := name + "/consumer"
				// the list consumed is the frame's list, whatever happened to the run: a local copy of it is
				// assigned once (round-6 seed dropped the deferred calls of a cancelled frame, so a
				// defer mu.Unlock() never ran and every later user of the lock blocked)
				if lid := identOf(rs.X); lid != nil {
					lobj := ic.Info.ObjectOf(lid)
					nAssign := 0
					ast.Inspect(fi.Decl.Body, func(q ast.Node) bool {
						if as, ok := q.(*ast.AssignStmt); ok {
							for _, l := range as.Lhs {
								if x := identOf(l); x != nil && ic.Info.ObjectOf(x) == lobj {
									nAssign++
								}
							}
						}
						return true
					})
					r.Check(nAssign == 1, "R06.2", key+"/list-not-replaced", ic.pos(rs.Pos()), "the unwinding loop consumes the frame's own list of deferred calls",
						fmt.Sprintf("the local copy of frame.deferred consumed by the unwinding loop of %s is assigned %d times: on some path the deferred calls of the frame are dropped (or replaced), so a deferred mu.Unlock() or file close of the function never runs", name, nAssign))
				}
				// forward range, body calls val[0].Call(val[1:])
				valObj := types.Object(nil)
				if id, ok := rs.Value.(*ast.Ident); ok {
					valObj = ic.Info.ObjectOf(id)
				}
				okCall := false
				isolated := false
				// recordCall reports whether body invokes rec[0].Call(rec[1:]) for the record object rec.
				var recordCall func(body ast.Node, rec types.Object) bool
				recordCall = func(body ast.Node, rec types.Object) bool {
					found := false
					ast.Inspect(body, func(m ast.Node) bool {
						c, ok := m.(*ast.CallExpr)
						if !ok || !isCallTo(ic.Info, c, "reflect.Value.Call") || len(c.Args) != 1 {
							return true
						}
						recv := unparen(unparen(c.Fun).(*ast.SelectorExpr).X)
						ix, ok1 := recv.(*ast.IndexExpr)
						sl, ok2 := unparen(c.Args[0]).(*ast.SliceExpr)
						if !ok1 || !ok2 {
							return true
						}
						zero := false
						if tv, ok := ic.Info.Types[ix.Index]; ok && tv.Value != nil && tv.Value.ExactString() == "0" {
							zero = true
						}
						one := false
						if sl.Low != nil && sl.High == nil {
							if tv, ok := ic.Info.Types[sl.Low]; ok && tv.Value != nil && tv.Value.ExactString() == "1" {
								one = true
							}
						}
						a, b := rootIdent(ix.X), rootIdent(sl.X)
						if zero && one && a != nil && b != nil && ic.Info.ObjectOf(a) == rec && ic.Info.ObjectOf(b) == rec {
							found = true
						}
						return true
					})
					return found
				}
				if recordCall(rs.Body, valObj) {
					okCall = true
				} else {
					// through a helper receiving the record: h(rec) or x.h(rec)
					ast.Inspect(rs.Body, func(m ast.Node) bool {
						c, ok := m.(*ast.CallExpr)
						if !ok {
							return true
						}
						hf, _ := calleeOf(ic.Info, c).(*types.Func)
						if hf == nil || ic.G.Funcs[hf] == nil {
							return true
						}
						for ai, a := range c.Args {
							id, ok := unparen(a).(*ast.Ident)
							if !ok || ic.Info.ObjectOf(id) != valObj {
								continue
							}
							hd := ic.G.Funcs[hf].Decl
							// the parameter receiving the record
							pi := 0
							for _, fl := range hd.Type.Params.List {
								for _, pn := range fl.Names {
									if pi == ai && recordCall(hd.Body, ic.Info.ObjectOf(pn)) {
										okCall = true
										// isolated: the helper has a deferred recover that does not re-panic
										for _, st := range hd.Body.List {
											if ds, ok := st.(*ast.DeferStmt); ok {
												if dl, ok := ds.Call.Fun.(*ast.FuncLit); ok {
													rec, rep := false, false
													ast.Inspect(dl.Body, func(k ast.Node) bool {
														if cc, ok := k.(*ast.CallExpr); ok {
															if fid, ok := cc.Fun.(*ast.Ident); ok {
																if fid.Name == "recover" {
																	rec = true
																}
																if fid.Name == "panic" {
																	rep = true
																}
															}
														}
														return true
													})
													if rec && !rep {
														isolated = true
														// ... and registered before every invocation of a record: a call made
														// ahead of the defer statement (a "not panicking" fast path) runs unprotected
														for _, rc := range callsIn(ic.Info, hd.Body, false, "reflect.Value.Call", "reflect.Value.CallSlice") {
															if rc.Pos() < ds.Pos() {
																isolated = false
															}
														}
													}
												}
											}
										}
									}
									pi++
								}
							}
						}
						return true
					})
				}
				r.Check(isolated, "R06.7", name+"/deferred-calls-isolated", ic.pos(rs.Pos()), "each deferred record runs under its own recover",
					"the deferred records of a frame are invoked one after the other without a recover of their own: a panic raised by one deferred function aborts the loop and the remaining deferred functions never run (Go runs them and lets the new panic replace the old one)")
				r.Check(okCall && valObj != nil, "R06.2", key, ic.pos(rs.Pos()), "forward range calling rec[0].Call(rec[1:])",
					"the consumer of frame.deferred in "+name+" does not call rec[0].Call(rec[1:]) for each record in order")
			}
			return true
		})
	}
	if stores < 3 {
		r.Errorf("R06.2: %d stores to frame.deferred found; the interpreted-callee, binary-callee and builtin defer forms are expected", stores)
	}
	if reads != 1 {
		r.Errorf("R06.2: %d consumers (range over frame.deferred) found, expected exactly one (the unwinding function)", reads)
	}
}

func c06R3(ic *IC, r *Report) {
	defFld := ic.field("frame", "deferred")
	if defFld == nil {
		return
	}
	cp := copiers(ic)
	var cpNames []string
	for f := range cp {
		cpNames = append(cpNames, f.Name())
	}
	sort.Strings(cpNames)
	r.Info["copier_functions"] = cpNames
	// the copiers copy every settable value: the argument is returned unchanged only when it
	// cannot alias storage (conditions on CanSet/CanAddr/IsValid), never depending on its kind
	for f := range cp {
		fi := ic.G.Funcs[f]
		if fi == nil {
			continue
		}
		var param types.Object
		if len(fi.Decl.Type.Params.List) == 1 && len(fi.Decl.Type.Params.List[0].Names) == 1 {
			param = ic.Info.ObjectOf(fi.Decl.Type.Params.List[0].Names[0])
		}
		bad := ""
		ast.Inspect(fi.Decl.Body, func(nd ast.Node) bool {
			rs, ok := nd.(*ast.ReturnStmt)
			if !ok || len(rs.Results) != 1 {
				return true
			}
			id, ok := unparen(rs.Results[0]).(*ast.Ident)
			if !ok || ic.Info.ObjectOf(id) != param {
				return true
			}
			// conditions guarding this early return
			p := enclosingPath(fi.Decl.Body, rs)
			for _, x := range p {
				var conds []ast.Node
				switch y := x.(type) {
				case *ast.IfStmt:
					conds = append(conds, y.Cond)
				case *ast.SwitchStmt:
					if y.Tag != nil {
						conds = append(conds, y.Tag)
					}
				case *ast.CaseClause:
					for _, e := range y.List {
						conds = append(conds, e)
					}
				}
				for _, c := range conds {
					ast.Inspect(c, func(m ast.Node) bool {
						if call, ok := m.(*ast.CallExpr); ok {
							if cf, ok := calleeOf(ic.Info, call).(*types.Func); ok && cf.Pkg() != nil && cf.Pkg().Path() == "reflect" {
								switch cf.Name() {
								case "CanSet", "CanAddr", "IsValid":
								default:
									bad = "returns its argument unchanged under a condition on " + cf.Name() + "()"
								}
							}
						}
						return true
					})
				}
			}
			return true
		})
		r.Check(bad == "", "R06.3", f.Name()+"/copies-every-settable-value", ic.pos(fi.Decl.Pos()), "the argument is returned uncopied only when it cannot alias storage",
			"the argument copier "+f.Name()+" "+bad+": for such values the defer/go record keeps a reflect.Value aliasing the variable, so a later assignment to the variable is seen by the deferred or spawned call (arguments not fixed at the statement)")
	}
	n := 0
	for _, name := range sortedKeys(ic.F) {
		fi := ic.F[name]
		if fi.Decl.Body == nil {
			continue
		}
		k := 0
		ast.Inspect(fi.Decl.Body, func(nd ast.Node) bool {
			fl, ok := nd.(*ast.FuncLit)
			if !ok || !isFrameClosure(ic.Info, fl) {
				return true
			}
			// record variable: the single element of the prepended list
			var rec types.Object
			ast.Inspect(fl.Body, func(m ast.Node) bool {
				as, ok := m.(*ast.AssignStmt)
				if !ok {
					return true
				}
				for i, l := range as.Lhs {
					if selField(ic.Info, l) == defFld && i < len(as.Rhs) {
						if call, ok := unparen(as.Rhs[i]).(*ast.CallExpr); ok && len(call.Args) > 0 {
							if cl, ok := unparen(call.Args[0]).(*ast.CompositeLit); ok && len(cl.Elts) == 1 {
								if id, ok := unparen(cl.Elts[0]).(*ast.Ident); ok {
									rec = ic.Info.ObjectOf(id)
								}
							}
						}
					}
				}
				return true
			})
			if rec == nil {
				return true
			}
			n++
			k++
			key := fmt.Sprintf("%s/defer-record#%d", name, k)
			stores := vectorStores(ic, fl.Body, rec)
			var bad []string
			args := 0
			for _, s := range stores {
				if tv, ok := ic.Info.Types[s.idx]; ok && tv.Value != nil && tv.Value.ExactString() == "0" {
					continue // element 0 is the callee
				}
				args++
				if !isFreshValue(ic, cp, s.rhs) {
					bad = append(bad, types.ExprString(s.rhs)+" at "+ic.pos(s.rhs.Pos()))
				}
			}
			if args == 0 {
				r.Fail("R06.3", key, ic.pos(fl.Pos()), "undecided: no argument store into the defer record found")
				return false
			}
			r.Check(len(bad) == 0, "R06.3", key, ic.pos(fl.Pos()), "argument values are copied when the defer statement executes",
				"the defer record stores "+strings.Join(bad, ", ")+" without copying: the value aliases a frame slot, so a later assignment to the variable is seen by the deferred call (arguments not fixed at the defer statement)")
			return false
		})
	}
	if n < 3 {
		r.Errorf("R06.3: %d defer-recording closures found, expected interpreted, binary and builtin forms", n)
	}
}

func c06R4(ic *IC, r *Report) {
	recFld := ic.field("frame", "recovered")
	defFld := ic.field("frame", "deferred")
	ancFld := ic.field("frame", "anc")
	if recFld == nil || defFld == nil || ancFld == nil {
		r.Errorf("anchor not resolved: frame.recovered / deferred / anc")
		return
	}
	// The unwinding function: the deferred literal that assigns recovered = recover() and runs the records.
	found := 0
	candidatesWithoutLoop := 0
	for _, name := range sortedKeys(ic.F) {
		fi := ic.F[name]
		if fi.Decl.Body == nil {
			continue
		}
		ast.Inspect(fi.Decl.Body, func(n ast.Node) bool {
			ds, ok := n.(*ast.DeferStmt)
			if !ok {
				return true
			}
			fl, ok := ds.Call.Fun.(*ast.FuncLit)
			if !ok {
				return true
			}
			var recAssign, loop, repanic ast.Node
			var panicCond ast.Expr
			ast.Inspect(fl.Body, func(m ast.Node) bool {
				switch x := m.(type) {
				case *ast.AssignStmt:
					if len(x.Lhs) == 1 && len(x.Rhs) == 1 && selField(ic.Info, x.Lhs[0]) == recFld {
						isRecover := func(e ast.Expr) bool {
							c, ok := unparen(e).(*ast.CallExpr)
							if !ok {
								return false
							}
							id, ok := c.Fun.(*ast.Ident)
							return ok && id.Name == "recover"
						}
						if isRecover(x.Rhs[0]) {
							recAssign = x
						} else if id, ok := unparen(x.Rhs[0]).(*ast.Ident); ok {
							// through a local: r := recover(); f.recovered = r
							obj := ic.Info.ObjectOf(id)
							ast.Inspect(fl.Body, func(k ast.Node) bool {
								if as2, ok := k.(*ast.AssignStmt); ok && len(as2.Lhs) == 1 && len(as2.Rhs) == 1 {
									if lid, ok := as2.Lhs[0].(*ast.Ident); ok && ic.Info.ObjectOf(lid) == obj && isRecover(as2.Rhs[0]) {
										recAssign = x
									}
								}
								return true
							})
						}
					}
				case *ast.RangeStmt:
					if fieldOrLocalCopy(ic, fl.Body, x.X, defFld) {
						loop = x
					}
				case *ast.IfStmt:
					ast.Inspect(x.Body, func(k ast.Node) bool {
						if c, ok := k.(*ast.CallExpr); ok {
							if id, ok := c.Fun.(*ast.Ident); ok && id.Name == "panic" && len(c.Args) == 1 && fieldOrLocalCopy(ic, fl.Body, c.Args[0], recFld) {
								if repanic == nil {
									repanic = c
									panicCond = x.Cond
								}
							}
						}
						return true
					})
				}
				return true
			})
			if recAssign == nil {
				return true
			}
			if loop == nil {
				// a helper recording a new panic value (e.g. around one deferred call) is not the
				// unwinding function; remember it in case no unwinding function is found at all
				candidatesWithoutLoop++
				return true
			}
			found++
			fg := buildFlow(fl.Body, ic.Info)
			key := name + "/unwind"
			pos := ic.pos(fl.Pos())
			if loop == nil {
				r.Fail("R06.4", key+"/runs-deferred", pos, "the unwinding function does not range over frame.deferred: deferred calls never run")
				return false
			}
			d1, ok1 := fg.dominates(recAssign, loop.(*ast.RangeStmt).X)
			r.Check(ok1 && d1, "R06.4", key+"/recover-before-deferred", pos, "recovered = recover() dominates the loop over deferred records",
				"the deferred records may run before the panic value is captured: recover() inside a deferred function would not see the panic")
			if repanic == nil {
				r.Fail("R06.4", key+"/repanic", pos, "the unwinding function never re-panics with frame.recovered: an unrecovered panic is silently dropped")
				return false
			}
			d2, ok2 := fg.dominates(loop.(*ast.RangeStmt).X, repanic)
			r.Check(ok2 && d2, "R06.4", key+"/deferred-before-repanic", pos, "the loop over deferred records dominates panic(recovered)",
				"panic(recovered) can be reached without running the deferred records first")
			condOK := false
			if be, ok := unparen(panicCond).(*ast.BinaryExpr); ok && be.Op == token.NEQ && selField(ic.Info, be.X) == recFld {
				if id, ok := unparen(be.Y).(*ast.Ident); ok && id.Name == "nil" {
					condOK = true
				}
			}
			// a panic raised by a deferred call is recorded in frame.recovered while the loop runs:
			// nothing leaves the unwinding function between the loop and the test of recovered
			{
				var condIf ast.Node
				for _, p := range enclosingPath(fl.Body, repanic) {
					if ifs, ok := p.(*ast.IfStmt); ok && ifs.Cond == panicCond {
						condIf = ifs
					}
				}
				early := ""
				if condIf != nil {
					ast.Inspect(fl.Body, func(q ast.Node) bool {
						if _, ok := q.(*ast.FuncLit); ok && q != ast.Node(fl) {
							return false
						}
						if rs, ok := q.(*ast.ReturnStmt); ok && rs.Pos() > loop.End() && rs.Pos() < condIf.Pos() {
							early = ic.pos(rs.Pos())
						}
						return true
					})
				}
				r.Check(condIf != nil && early == "", "R06.4", key+"/no-exit-between-deferred-and-repanic", pos, "no return between the loop over the deferred records and the test of recovered",
					"the unwinding function returns at "+early+", after running the deferred calls and before testing frame.recovered: a panic raised by a deferred call while the function returns normally is recorded there and then dropped - the function returns to its caller as if nothing happened")
			}
			r.Check(condOK, "R06.4", key+"/repanic-cond", pos, "re-panic only when recovered != nil",
				"panic(recovered) is not guarded by recovered != nil (condition: "+types.ExprString(panicCond)+")")
			return false
		})
	}
	if found == 0 && candidatesWithoutLoop > 0 {
		r.Fail("R06.4", "runCfg/unwind/runs-deferred", "", "a deferred function captures the panic value into frame.recovered but none ranges over frame.deferred: deferred calls never run")
	} else if found != 1 {
		r.Errorf("R06.4: %d unwinding functions (deferred literal assigning frame.recovered = recover() and running the deferred records) found, expected 1", found)
	}
	// recover builtin: reads and clears f.anc.recovered.
	rec := ic.F["_recover"]
	if rec == nil {
		// role: the generator registered for the recover builtin reads frame.recovered through anc
		for _, name := range sortedKeys(ic.F) {
			fi := ic.F[name]
			if fi.Decl.Body == nil || fi.Decl.Recv != nil {
				continue
			}
			reads := false
			ast.Inspect(fi.Decl.Body, func(n ast.Node) bool {
				if e, ok := n.(ast.Expr); ok && selField(ic.Info, e) == recFld && name != "runCfg" {
					reads = true
				}
				return true
			})
			if reads && len(fi.Decl.Type.Params.List) == 1 {
				rec = fi
			}
		}
	}
	if rec == nil {
		r.Errorf("anchor not resolved: generator of the recover builtin")
		return
	}
	throughAnc, clears, others := 0, false, 0
	ast.Inspect(rec.Decl.Body, func(n ast.Node) bool {
		if as, ok := n.(*ast.AssignStmt); ok {
			for i, l := range as.Lhs {
				if selField(ic.Info, l) == recFld && i < len(as.Rhs) {
					if id, ok := unparen(as.Rhs[i]).(*ast.Ident); ok && id.Name == "nil" {
						if selField(ic.Info, unparen(l).(*ast.SelectorExpr).X) == ancFld {
							clears = true
						}
					}
				}
			}
		}
		if se, ok := n.(*ast.SelectorExpr); ok && selField(ic.Info, se) == recFld {
			if selField(ic.Info, se.X) == ancFld {
				if inner, ok := unparen(se.X).(*ast.SelectorExpr); ok {
					if _, ok := unparen(inner.X).(*ast.Ident); ok {
						throughAnc++
						return true
					}
				}
			}
			others++
		}
		return true
	})
	pos := ic.pos(rec.Decl.Pos())
	r.Check(throughAnc > 0 && others == 0, "R06.4", funcName(rec.Decl)+"/caller-frame", pos, "recover() consults only f.anc.recovered (the frame of the function that deferred the caller)",
		fmt.Sprintf("recover() reads frame.recovered through something other than f.anc (%d accesses): it would stop panics when not called directly by a deferred function, or miss them", others))
	r.Check(clears, "R06.4", funcName(rec.Decl)+"/clears", pos, "recover() clears f.anc.recovered", "recover() does not clear f.anc.recovered: the panic resumes after being recovered")
}

// fieldOrLocalCopy reports whether e denotes field fld, directly or through a local
// variable assigned from it (x := f.fld) in body.
func fieldOrLocalCopy(ic *IC, body ast.Node, e ast.Expr, fld *types.Var) bool {
	if selField(ic.Info, e) == fld {
		return true
	}
	id, ok := unparen(e).(*ast.Ident)
	if !ok {
		return false
	}
	obj := ic.Info.ObjectOf(id)
	found := false
	ast.Inspect(body, func(n ast.Node) bool {
		if as, ok := n.(*ast.AssignStmt); ok && len(as.Lhs) == len(as.Rhs) {
			for i, l := range as.Lhs {
				if lid, ok := l.(*ast.Ident); ok && ic.Info.ObjectOf(lid) == obj && selField(ic.Info, as.Rhs[i]) == fld {
					found = true
				}
			}
		}
		return true
	})
	return found
}

// c06R10: between the recover() of the unwinding function and its panic(recovered), the code
// that writes the trace line runs inside the deferred function: a Go run-time fault there
// replaces the panic in flight (recover then yields "index out of range" instead of the
// script's value). In the deferred function of runCfg and the in-package functions it calls
// (those running interpreted code excepted), every constant index into a node's children
// X.child[k] is covered by a test of X's kind or of len(X.child) on the path leading to it.
func c06R10(ic *IC, r *Report) {
	fi := ic.fn(r, "runCfg")
	if fi == nil {
		return
	}
	info := ic.Info
	childFld := ic.field("node", "child")
	if childFld == nil {
		r.Errorf("anchor not resolved: node.child")
		return
	}
	var deferred *ast.FuncLit
	ast.Inspect(fi.Decl.Body, func(n ast.Node) bool {
		if ds, ok := n.(*ast.DeferStmt); ok && deferred == nil {
			if fl, ok := ds.Call.Fun.(*ast.FuncLit); ok && len(callsInBuiltin(info, fl.Body, "recover")) > 0 {
				deferred = fl
			}
		}
		return true
	})
	if deferred == nil {
		r.Errorf("R06.10: the deferred function of runCfg calling recover() was not found")
		return
	}
	// bodies on the propagation path
	type unit struct {
		name string
		body *ast.BlockStmt
	}
	units := []unit{{"runCfg/deferred", deferred.Body}}
	seen := map[*types.Func]bool{}
	var collect func(body ast.Node)
	collect = func(body ast.Node) {
		ast.Inspect(body, func(n ast.Node) bool {
			c, ok := n.(*ast.CallExpr)
			if !ok {
				return true
			}
			f, ok := calleeOf(info, c).(*types.Func)
			if !ok || f.Pkg() != ic.Pk.Types || seen[f] {
				return true
			}
			seen[f] = true
			switch f.Name() {
			case "callDeferred", "Walk":
				return true // runs interpreted code / generic tree walk with callbacks
			}
			if cfi := ic.G.Funcs[f]; cfi != nil && cfi.Decl.Body != nil {
				units = append(units, unit{funcName(cfi.Decl), cfi.Decl.Body})
				collect(cfi.Decl.Body)
			}
			return true
		})
	}
	collect(deferred.Body)
	cu := make([]childIndexUnit, len(units))
	for i, u := range units {
		cu[i] = childIndexUnit{u.name, u.body}
	}
	nIdx := checkChildIndexes(ic, r, "R06.10", cu, func(u childIndexUnit, ix *ast.IndexExpr, owner string) string {
		return u.name + " indexes " + types.ExprString(ix) + " while the panic is being propagated, with no test of " + owner + ".kind or len(" + owner + ".child) on the path: for a node with fewer children (a receiver declared without a name has one) the index faults inside the deferred function of runCfg, and that run-time error replaces the script's panic value for recover and for the error returned by Eval"
	})
	r.Info["propagation_path_functions"] = len(units)
	if nIdx == 0 {
		r.Errorf("R06.10: no constant index into node.child found on the propagation path (panicFunc is expected to read the function name)")
	}
}

func callsInBuiltin(info *types.Info, body ast.Node, name string) []*ast.CallExpr {
	var out []*ast.CallExpr
	ast.Inspect(body, func(n ast.Node) bool {
		if c, ok := n.(*ast.CallExpr); ok && isBuiltinCall(info, c, name) {
			out = append(out, c)
		}
		return true
	})
	return out
}

// c06R11: a call written f(s...) passes s as the variadic parameter itself, also when the call
// is deferred. In every call generator that honours the ellipsis for an immediate call (it
// contains reflect.Value.CallSlice), each run-time closure recording a deferred call (an
// append to frame.deferred) also contains a CallSlice: the record is consumed by
// rec[0].Call(rec[1:]), which would pack the slice as a single variadic element
// (defer fmt.Println(xs...) printing [1 2 3] instead of 1 2 3).
func c06R11(ic *IC, r *Report, rule string) {
	info := ic.Info
	deferredFld := ic.field("frame", "deferred")
	if deferredFld == nil {
		r.Errorf("anchor not resolved: frame.deferred")
		return
	}
	n := 0
	for _, name := range sortedKeys(ic.F) {
		fi := ic.F[name]
		if fi.Decl.Body == nil || fi.Obj == nil || fi.Decl.Recv != nil {
			continue
		}
		if len(callsIn(info, fi.Decl.Body, true, "reflect.Value.CallSlice")) == 0 {
			continue
		}
		idx := 0
		ast.Inspect(fi.Decl.Body, func(m ast.Node) bool {
			fl, ok := m.(*ast.FuncLit)
			if !ok || !isFrameClosure(info, fl) {
				return true
			}
			records := false
			ast.Inspect(fl.Body, func(k ast.Node) bool {
				if as, ok := k.(*ast.AssignStmt); ok {
					for _, l := range as.Lhs {
						if selField(info, l) == deferredFld {
							records = true
						}
					}
				}
				return true
			})
			if !records {
				return true
			}
			idx++
			n++
			has := len(callsIn(info, fl.Body, true, "reflect.Value.CallSlice")) > 0
			r.Check(has, rule, fmt.Sprintf("%s/deferred-record#%d/ellipsis-honoured", name, idx), ic.pos(fl.Pos()), "the record of a call written f(s...) invokes CallSlice",
				"generator "+name+" uses reflect.Value.CallSlice for an immediate call written f(s...), but this closure records a deferred call without it: the record is run by rec[0].Call(rec[1:]), so the slice arrives as one element of the variadic parameter (defer fmt.Println(xs...) prints [1 2 3], compiled Go prints 1 2 3)")
			return false
		})
	}
	if n == 0 {
		r.Errorf("%s: no closure recording a deferred call found in the generators using CallSlice (call, callBin expected)", rule)
	}
}

// c06R12: a panic raised by a deferred function replaces the panic in progress (recover then
// yields the new value, and Eval reports it). Wherever a deferred recover stores the value it
// recovered into frame.recovered, the store is not conditional on the previous content of
// that field (`if f.recovered == nil { f.recovered = r }` keeps the first panic).
func c06R12(ic *IC, r *Report) {
	info := ic.Info
	recFld := ic.field("frame", "recovered")
	if recFld == nil {
		r.Errorf("anchor not resolved: frame.recovered")
		return
	}
	n := 0
	for _, name := range sortedKeys(ic.F) {
		fi := ic.F[name]
		if fi.Decl.Body == nil {
			continue
		}
		ast.Inspect(fi.Decl.Body, func(m ast.Node) bool {
			ds, ok := m.(*ast.DeferStmt)
			if !ok {
				return true
			}
			fl, ok := ds.Call.Fun.(*ast.FuncLit)
			if !ok || len(callsInBuiltin(info, fl.Body, "recover")) == 0 {
				return true
			}
			ast.Inspect(fl.Body, func(k ast.Node) bool {
				as, ok := k.(*ast.AssignStmt)
				if !ok || len(as.Lhs) != 1 || selField(info, as.Lhs[0]) != recFld {
					return true
				}
				// the stored value is the recovered one (not a reset to nil)
				if id := identOf(as.Rhs[0]); id != nil && id.Name == "nil" {
					return true
				}
				n++
				cond := ""
				for _, g := range pathGuards(fl.Body, as) {
					mentions := false
					ast.Inspect(g.cond, func(q ast.Node) bool {
						if se, ok := q.(*ast.SelectorExpr); ok && selField(info, se) == recFld {
							mentions = true
						}
						return true
					})
					if mentions {
						cond = types.ExprString(g.cond)
					}
				}
				r.Check(cond == "", "R06.12", fmt.Sprintf("%s/recovered-panic-stored#%d/replaces-the-previous-one", name, n), ic.pos(as.Pos()), "the recovered value is stored whatever the field held",
					"in "+name+" the panic recovered from a deferred call is stored into frame.recovered only under "+cond+": a deferred function that panics while a panic is in progress no longer replaces it (defer func() { panic(\"second\") }(); panic(\"first\") must end with \"second\")")
				return true
			})
			return true
		})
	}
	if n == 0 {
		r.Errorf("R06.12: no deferred recover storing into frame.recovered found (callDeferred and runCfg are expected)")
	}
}

// c06R13: panic(x) raises x itself. The interpreter holds x as a reflect.Value; panicking with
// that reflect.Value makes recover() (and Panic.Value returned by Eval) yield a value of type
// reflect.Value: r.(string) and r.(error) fail, and the value still designates the variable it
// was read from. In the generator of the panic builtin, a call panic(v) with v of static type
// reflect.Value is reached only when v cannot be unwrapped (not valid, or CanInterface false).
func c06R13(ic *IC, r *Report) {
	fi := ic.fn(r, "_panic")
	if fi == nil {
		return
	}
	info := ic.Info
	n := 0
	// the function literals of the generator: its run-time closures, or the function handed to
	// the defer wrapper
	var lits []*ast.FuncLit
	ast.Inspect(fi.Decl.Body, func(m ast.Node) bool {
		if fl, ok := m.(*ast.FuncLit); ok {
			lits = append(lits, fl)
			return false
		}
		return true
	})
	for k, fl := range lits {
		for _, c := range callsInBuiltin(info, fl.Body, "panic") {
			if len(c.Args) != 1 {
				continue
			}
			n++
			t := info.TypeOf(c.Args[0])
			wrapped := t != nil && types.TypeString(t, nil) == "reflect.Value"
			guarded := false
			for _, g := range pathGuards(fl.Body, c) {
				s := types.ExprString(g.cond)
				if g.want && (strings.Contains(s, "IsValid()") || strings.Contains(s, "CanInterface()")) {
					guarded = true
				}
			}
			// a panic with something else than the operand (a substitute such as
			// *runtime.PanicNilError) is reachable only for an operand that is not valid, i.e. the
			// nil interface: no condition on the operand's zeroness (round-5 seed: IsZero turned
			// panic(0), panic(""), panic(false) into a PanicNilError)
			substitute := !wrapped
			if substitute {
				ast.Inspect(c.Args[0], func(q ast.Node) bool {
					if ce, ok := q.(*ast.CallExpr); ok && isCallTo(info, ce, "reflect.Value.Interface") {
						substitute = false
					}
					if id, ok := q.(*ast.Ident); ok {
						if v, ok := info.Uses[id].(*types.Var); ok {
							// a local assigned from <operand>.Interface()
							ast.Inspect(fl.Body, func(d ast.Node) bool {
								if as, ok := d.(*ast.AssignStmt); ok && len(as.Lhs) == len(as.Rhs) {
									for i, l := range as.Lhs {
										if lid := identOf(l); lid != nil && info.ObjectOf(lid) == v {
											if len(callsIn(info, as.Rhs[i], true, "reflect.Value.Interface")) > 0 {
												substitute = false
											}
										}
									}
								}
								return true
							})
						}
					}
					return true
				})
			}
			if substitute {
				badCond := ""
				for _, g := range pathGuards(fl.Body, c) {
					for _, ce := range allCalls(g.cond) {
						if f, ok := calleeOf(info, ce).(*types.Func); ok && f.Pkg() != nil && f.Pkg().Path() == "reflect" {
							switch f.Name() {
							case "IsValid", "CanInterface", "Kind":
							default:
								badCond = types.ExprString(g.cond)
							}
						}
					}
				}
				r.Check(badCond == "", "R06.13", fmt.Sprintf("_panic/closure#%d/substitute-only-for-the-nil-interface#%d", k+1, n), ic.pos(c.Pos()), "a substitute panic value is raised only for an invalid operand",
					"the generator of the panic builtin raises "+types.ExprString(c.Args[0])+" instead of the operand's value under the condition "+badCond+": a valid operand that happens to be zero (panic(0), panic(\"\"), panic(false), a zero struct, a typed nil pointer) reaches recover() and Eval's Panic.Value as another value than the one the script raised")
			}
			r.Check(!wrapped || guarded, "R06.13", fmt.Sprintf("_panic/closure#%d/panics-with-the-value-itself#%d", k+1, n), ic.pos(c.Pos()), "the panic carries the Go value, not its reflect.Value",
				"the generator of the panic builtin calls panic("+types.ExprString(c.Args[0])+") with a reflect.Value: recover() then returns a reflect.Value (r.(string), r.(error) and switch r.(type) fail, Panic.Value reported by Eval is a reflect.Value) that still designates the variable the operand was read from (a deferred x = 2 changes the value of an earlier panic(x))")
		}
	}
	if n == 0 {
		r.Errorf("R06.13: no call of the panic builtin found in the closures of _panic")
	}
}

// c06R14: a builtin that Go allows as the callee of a defer statement (close, copy, delete,
// panic, print, println) is deferred, not executed on the spot: `defer panic("x")` raises its
// panic when the function returns, after the body. Sibling agreement over the generators bound
// to those builtins in the universe table: each goes through the shared defer wrapper (the
// in-package function that tests n.anc.kind == deferStmt and records the call in
// frame.deferred) or tests the deferStmt parent itself. R06.13 follows the panic into the
// function literal handed to the wrapper.
func c06R14(ic *IC, r *Report) {
	info := ic.Info
	// the defer wrapper: an in-package function whose body mentions deferStmt and assigns frame.deferred
	deferredFld := ic.field("frame", "deferred")
	wrappers := map[*types.Func]bool{}
	mentionsDefer := func(body ast.Node) bool {
		found := false
		ast.Inspect(body, func(m ast.Node) bool {
			if id, ok := m.(*ast.Ident); ok {
				if c, ok := info.Uses[id].(*types.Const); ok && c.Name() == "deferStmt" {
					found = true
				}
			}
			return !found
		})
		return found
	}
	for _, fi := range ic.F {
		if fi.Decl.Body == nil || fi.Obj == nil || !mentionsDefer(fi.Decl.Body) {
			continue
		}
		stores := false
		ast.Inspect(fi.Decl.Body, func(m ast.Node) bool {
			if as, ok := m.(*ast.AssignStmt); ok {
				for _, l := range as.Lhs {
					if selField(info, l) == deferredFld {
						stores = true
					}
				}
			}
			return true
		})
		if stores {
			wrappers[fi.Obj] = true
		}
	}
	deferrable := map[string]bool{"close": true, "copy": true, "delete": true, "panic": true, "print": true, "println": true}
	n := 0
	for _, f := range ic.Pk.Syntax {
		ast.Inspect(f, func(m ast.Node) bool {
			kv, ok := m.(*ast.KeyValueExpr)
			if !ok {
				return true
			}
			tv, ok := info.Types[kv.Key]
			if !ok || tv.Value == nil || tv.Value.Kind() != constant.String || !deferrable[constant.StringVal(tv.Value)] {
				return true
			}
			cl, ok := unparen(kv.Value).(*ast.CompositeLit)
			if !ok {
				return true
			}
			for _, e := range cl.Elts {
				ekv, ok := e.(*ast.KeyValueExpr)
				if !ok || types.ExprString(ekv.Key) != "builtin" {
					continue
				}
				gid := identOf(ekv.Value)
				if gid == nil {
					continue
				}
				g, ok := info.Uses[gid].(*types.Func)
				if !ok {
					continue
				}
				gfi := ic.G.Funcs[g]
				if gfi == nil || gfi.Decl.Body == nil {
					continue
				}
				n++
				handles := wrappers[g]
				for _, c := range allCalls(gfi.Decl.Body) {
					if cf, ok := calleeOf(info, c).(*types.Func); ok && wrappers[cf] {
						handles = true
					}
				}
				name := constant.StringVal(tv.Value)
				r.Check(handles, "R06.14", "builtin:"+name+"/deferrable", ic.pos(gfi.Decl.Pos()), "the generator handles the defer statement (through the shared defer wrapper)",
					"the generator "+funcName(gfi.Decl)+" of the builtin "+name+" neither goes through the defer wrapper nor tests for a defer statement: `defer "+name+"(...)` executes the builtin at the defer statement instead of when the function returns (defer panic(\"x\") aborts the body)")
			}
			return true
		})
	}
	if n < 6 {
		r.Errorf("R06.14: only %d of the deferrable builtins (close, copy, delete, panic, print, println) found in the universe table", n)
	}
}

// childIndexUnit is one function body whose constant indexes into node.child are checked.
type childIndexUnit struct {
	name string
	body *ast.BlockStmt
}

// checkChildIndexes: every constant index X.child[k] in the units lies under a test of X.kind or
// len(X.child) (enclosing if/switch/case, left operand of &&, or an earlier guard leaving the
// block). Shared by R06.10 (panic propagation path) and R19.10 (debugger hooks).
func checkChildIndexes(ic *IC, r *Report, rule string, units []childIndexUnit, why func(u childIndexUnit, ix *ast.IndexExpr, owner string) string) int {
	info := ic.Info
	childFld := ic.field("node", "child")
	nIdx := 0
	for _, u := range units {
		ast.Inspect(u.body, func(n ast.Node) bool {
			ix, ok := n.(*ast.IndexExpr)
			if !ok {
				return true
			}
			se, ok := unparen(ix.X).(*ast.SelectorExpr)
			if !ok || selField(info, se) != childFld {
				return true
			}
			tv, ok := info.Types[ix.Index]
			if !ok || tv.Value == nil {
				return true
			}
			nIdx++
			owner := types.ExprString(se.X)
			covered := false
			mentions := func(e ast.Node) bool {
				found := false
				ast.Inspect(e, func(m ast.Node) bool {
					switch x := m.(type) {
					case *ast.SelectorExpr:
						if x.Sel.Name == "kind" && types.ExprString(x.X) == owner {
							found = true
						}
					case *ast.CallExpr:
						if isBuiltinCall(info, x, "len") && len(x.Args) == 1 && types.ExprString(x.Args[0]) == owner+".child" {
							found = true
						}
					}
					return !found
				})
				return found
			}
			path := enclosingPath(u.body, ix)
			for i, p := range path {
				switch x := p.(type) {
				case *ast.IfStmt:
					if i+1 < len(path) && path[i+1] == ast.Node(x.Body) && mentions(x.Cond) {
						covered = true
					}
					// if len(X.child) == 0 { return } before: handled below
				case *ast.SwitchStmt:
					if x.Tag != nil && mentions(x.Tag) {
						covered = true
					}
				case *ast.CaseClause:
					for _, e := range x.List {
						if mentions(e) {
							covered = true
						}
					}
				case *ast.BinaryExpr:
					// len(X.child) > 1 && X.child[1]...
					if x.Op == token.LAND && i+1 < len(path) && path[i+1] == ast.Node(x.Y) && mentions(x.X) {
						covered = true
					}
				case *ast.BlockStmt:
					// an earlier statement of the block leaving when the test fails
					for _, st := range x.List {
						if i+1 < len(path) && st == path[i+1] {
							break
						}
						if ifs, ok := st.(*ast.IfStmt); ok && mentions(ifs.Cond) && len(ifs.Body.List) > 0 {
							switch ifs.Body.List[len(ifs.Body.List)-1].(type) {
							case *ast.ReturnStmt, *ast.BranchStmt:
								covered = true
							}
						}
					}
				}
			}
			r.Check(covered, rule, fmt.Sprintf("%s/%s.child[%s]/guarded", u.name, owner, tv.Value.ExactString()), ic.pos(ix.Pos()), "the node's kind or number of children is tested on the way",
				why(u, ix, owner))
			return true
		})
	}
	return nIdx
}

func init() {
	ruleText["R06.16"] = "in every run-time closure recording a deferred call, the function value of the record (element 0) is never the plain result of a value generator: it is a copy (the argument copier), a function built in the closure (reflect.MakeFunc / reflect.ValueOf of a literal) or a wrapper generated for a node whose receiver record was filled in the closure - the function value and the receiver of a deferred call are fixed when the defer statement executes, like its arguments"
}

// c06R16: found D81 (defer fn() with fn reassigned later; defer t.show() with t modified later).
func c06R16(ic *IC, r *Report) {
	info := ic.Info
	cp := copiers(ic)
	isValueFn := func(t types.Type) bool {
		sg, ok := t.Underlying().(*types.Signature)
		if !ok || sg.Params().Len() != 1 || sg.Results().Len() != 1 {
			return false
		}
		return isNamedPtr(sg.Params().At(0).Type(), "frame") && types.TypeString(sg.Results().At(0).Type(), nil) == "reflect.Value"
	}
	n := 0
	for _, name := range sortedKeys(ic.F) {
		fi := ic.F[name]
		if fi.Decl.Body == nil {
			continue
		}
		k := 0
		for _, fl := range (&c02ctx{ic: ic}).closuresOf(fi) {
			// records prepended to the deferred list
			recs := map[types.Object]bool{}
			ast.Inspect(fl.Body, func(m ast.Node) bool {
				as, ok := m.(*ast.AssignStmt)
				if !ok || len(as.Lhs) != 1 || len(as.Rhs) != 1 {
					return true
				}
				if v := selField(info, as.Lhs[0]); v == nil || v.Name() != "deferred" {
					return true
				}
				ast.Inspect(as.Rhs[0], func(q ast.Node) bool {
					if cl, ok := q.(*ast.CompositeLit); ok {
						for _, e := range cl.Elts {
							if id := identOf(e); id != nil {
								recs[info.ObjectOf(id)] = true
							}
						}
					}
					return true
				})
				return true
			})
			if len(recs) == 0 {
				continue
			}
			ast.Inspect(fl.Body, func(m ast.Node) bool {
				as, ok := m.(*ast.AssignStmt)
				if !ok || len(as.Lhs) != 1 || len(as.Rhs) != 1 {
					return true
				}
				ix, ok := unparen(as.Lhs[0]).(*ast.IndexExpr)
				if !ok {
					return true
				}
				if id := identOf(ix.X); id == nil || !recs[info.ObjectOf(id)] {
					return true
				}
				if tv, ok := info.Types[ix.Index]; !ok || tv.Value == nil || tv.Value.ExactString() != "0" {
					return true
				}
				n++
				k++
				plain := false
				if c, ok := unparen(as.Rhs[0]).(*ast.CallExpr); ok {
					if fid := identOf(c.Fun); fid != nil {
						if _, isFunc := info.ObjectOf(fid).(*types.Func); !isFunc && isValueFn(info.TypeOf(fid)) {
							plain = true
						}
						if f, isFunc := info.ObjectOf(fid).(*types.Func); isFunc && cp[f] {
							plain = false
						}
					}
				}
				r.Check(!plain, "R06.16", fmt.Sprintf("%s/deferred-record#%d/function-value-fixed-at-the-statement", name, k), ic.pos(as.Pos()), "the function value of the record is fixed when the defer statement executes",
					name+" records "+types.ExprString(as.Rhs[0])+" as the function of a deferred call: the plain result of a value generator still designates the variable (or re-evaluates the receiver expression when called), so fn := f1; defer fn(); fn = f2 runs f2, and defer t.show() sees the later value of t")
				return true
			})
		}
	}
	if n < 3 {
		r.Errorf("R06.16: only %d deferred records found (three defer forms expected)", n)
	}
}

func init() {
	ruleText["R06.18"] = "a panic that leaves a frame is no longer in flight in that frame: in the unwinding function (the deferred literal of runCfg that stores recover() into frame.recovered and runs the deferred records) the re-panic does not read the field as its argument while leaving it set - the field is assigned nil before the call of panic, in the same block, and the argument is a local copy. The global frame outlives the evaluation: a value left there is what a plain recover() of the next evaluation returns"
}

// c06R18: D126 (round-8 report on C06, E1).
func c06R18(ic *IC, r *Report) {
	info := ic.Info
	recFld := ic.field("frame", "recovered")
	fi := ic.fn(r, "runCfg")
	if recFld == nil || fi == nil {
		r.Errorf("R06.18: frame.recovered / runCfg not found")
		return
	}
	n := 0
	ast.Inspect(fi.Decl.Body, func(q ast.Node) bool {
		ds, ok := q.(*ast.DeferStmt)
		if !ok {
			return true
		}
		fl, ok := ds.Call.Fun.(*ast.FuncLit)
		if !ok {
			return true
		}
		ast.Inspect(fl.Body, func(z ast.Node) bool {
			blk, ok := z.(*ast.BlockStmt)
			if !ok {
				return true
			}
			for i, st := range blk.List {
				es, ok := st.(*ast.ExprStmt)
				if !ok {
					continue
				}
				c, ok := es.X.(*ast.CallExpr)
				if !ok || len(c.Args) != 1 {
					continue
				}
				if id := identOf(c.Fun); id == nil || id.Name != "panic" || info.Uses[id] != types.Universe.Lookup("panic") {
					continue
				}
				n++
				readsField := false
				ast.Inspect(c.Args[0], func(y ast.Node) bool {
					if se, ok := y.(*ast.SelectorExpr); ok && selField(info, se) == recFld {
						readsField = true
					}
					return true
				})
				cleared := false
				for _, prev := range blk.List[:i] {
					if as, ok := prev.(*ast.AssignStmt); ok && len(as.Lhs) == 1 && len(as.Rhs) == 1 {
						if se, ok := unparen(as.Lhs[0]).(*ast.SelectorExpr); ok && selField(info, se) == recFld {
							if id := identOf(as.Rhs[0]); id != nil && id.Name == "nil" {
								cleared = true
							}
						}
					}
				}
				why := ""
				switch {
				case readsField:
					why = "the re-panic reads the field as its argument (" + types.ExprString(c.Args[0]) + "), so the field is still set when the panic goes on"
				case !cleared:
					why = "the field is not assigned nil before the re-panic"
				}
				r.Check(why == "", "R06.18", fmt.Sprintf("runCfg/re-panic#%d/value-not-left-in-the-frame", n), ic.pos(c.Pos()), "the field is cleared and a local copy is re-raised",
					"in the unwinding function of runCfg "+why+": the value stays in frame.recovered of a frame the panic has left. For the global frame, which outlives the evaluation, a later Eval that calls a function doing a plain recover() (not deferred, no panic in flight) gets the value of the previous, failed Eval instead of nil")
			}
			return true
		})
		return true
	})
	if n == 0 {
		r.Errorf("R06.18: no re-panic found in the deferred literal of runCfg")
	}
}
