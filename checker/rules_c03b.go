package main

import (
	"fmt"
	"go/ast"
	"go/constant"
	"go/token"
	"go/types"
	"sort"
	"strings"
)

func init() {
	ruleText["R03.12"] = "every operator the Go specification allows in constant expressions (binary + - * / % & | ^ &^ << >> == != < <= > >=, unary + - ! ^, && ||) is folded at compile time: its action has a folder in constOp, or (&&, ||) the cfg case of the node kind the AST builder gives it assigns the node's rval; and no constant symbol is created from a source without value"
	ruleText["R03.13"] = "every invocation of a folder of the constOp table is preceded, on every path, by a call of the exact-result check (an in-package function that computes the result with go/constant's BinaryOp, UnaryOp and Shift and hands it to the representability function) whose error leaves the case: typed constant arithmetic is never left to wrapping machine arithmetic"
}

// c03R12: completeness of compile-time folding. An operator without folder is not an error
// for yaegi: the expression is compiled as a run-time operation, and a constant declared from
// it silently keeps the zero value (`const a = 1 < 2` was false). Found D56.
func (x *c02ctx) r12() {
	ic, r := x.ic, x.r
	info := ic.Info
	// actions by source token and class, from the AST builder (R02.1 has validated the spelling)
	type tk struct {
		class string
		tok   token.Token
	}
	actOf := map[tk]int64{}
	for a, t := range x.srcToken {
		actOf[tk{x.tokenKind[a], t}] = a
	}
	var want []tk
	for t := token.ADD; t <= token.AND_NOT; t++ {
		want = append(want, tk{"binary", t})
	}
	for _, t := range []token.Token{token.EQL, token.NEQ, token.LSS, token.LEQ, token.GTR, token.GEQ} {
		want = append(want, tk{"binary", t})
	}
	for _, t := range []token.Token{token.ADD, token.SUB, token.NOT, token.XOR} {
		want = append(want, tk{"unary", t})
	}
	n := 0
	for _, w := range want {
		key := w.class + "/" + w.tok.String()
		a, ok := actOf[w]
		if !ok {
			r.Fail("R03.12", key, ic.pos(ic.Pk.Syntax[0].Pos()), "the AST builder maps the "+w.class+" operator "+w.tok.String()+" to no action (see R02.1): its constant expressions cannot be folded")
			continue
		}
		n++
		f := x.constOp[a]
		pos := ic.pos(ic.Pk.Syntax[0].Pos())
		if x.constOpLit != nil {
			pos = ic.pos(x.constOpLit.Pos())
		}
		r.Check(f != nil, "R03.12", key, pos, x.actName[a]+" folded by "+nameOrNil(f),
			"the "+w.class+" operator "+w.tok.String()+" (action "+x.actName[a]+") has no folder in the constOp table: a constant expression using it is compiled as a run-time operation, and a constant declared from it (const c = 1 "+w.tok.String()+" 2) silently keeps the zero value of its type")
	}
	if n < 20 {
		r.Errorf("R03.12: only %d constant operators resolved to an action", n)
	}

	// && and ||: the AST builder gives them a node kind of their own; the cfg case of that kind folds.
	cfgFi := ic.fn(r, "Interpreter.cfg")
	astFi := ic.fn(r, "Interpreter.ast")
	if cfgFi == nil || astFi == nil {
		return
	}
	kindOfTok := map[token.Token]types.Object{}
	ast.Inspect(astFi.Decl.Body, func(m ast.Node) bool {
		cc, ok := m.(*ast.CaseClause)
		if !ok || len(cc.List) != 1 {
			return true
		}
		tv, ok := info.Types[cc.List[0]]
		if !ok || tv.Value == nil || types.TypeString(tv.Type, nil) != "go/token.Token" {
			return true
		}
		iv, _ := constant.Int64Val(tv.Value)
		tok := token.Token(iv)
		if tok != token.LAND && tok != token.LOR {
			return true
		}
		for _, s := range cc.Body {
			if as, ok := s.(*ast.AssignStmt); ok && len(as.Rhs) == 1 {
				if id := identOf(as.Rhs[0]); id != nil {
					if c, ok := info.ObjectOf(id).(*types.Const); ok && isNamed(c.Type(), "nkind") {
						kindOfTok[tok] = c
					}
				}
			}
		}
		return true
	})
	for _, tok := range []token.Token{token.LAND, token.LOR} {
		key := "binary/" + tok.String()
		kind := kindOfTok[tok]
		if kind == nil {
			r.Errorf("R03.12: the node kind the AST builder gives to %s was not identified", tok)
			continue
		}
		// post-order case clauses of cfg naming that kind
		var clauses []*ast.CaseClause
		ast.Inspect(cfgFi.Decl.Body, func(m ast.Node) bool {
			cc, ok := m.(*ast.CaseClause)
			if !ok {
				return true
			}
			for _, l := range cc.List {
				if id := identOf(l); id != nil && info.ObjectOf(id) == kind {
					clauses = append(clauses, cc)
				}
			}
			return true
		})
		folded := false
		var at token.Pos
		for _, cc := range clauses {
			for _, s := range cc.Body {
				if p := assignsRval(ic, s, 1); p != token.NoPos {
					folded, at = true, p
				}
			}
		}
		if len(clauses) == 0 {
			r.Errorf("R03.12: no case of cfg names the node kind %s", kind.Name())
			continue
		}
		pos := ic.pos(clauses[len(clauses)-1].Pos())
		if folded {
			pos = ic.pos(at)
		}
		r.Check(folded, "R03.12", key, pos, "the cfg case of "+kind.Name()+" assigns the node's rval",
			"no cfg case of the node kind "+kind.Name()+" (operator "+tok.String()+") assigns the node's rval, directly or through a helper handed the node: true "+tok.String()+" false is never a constant, and const c = true "+tok.String()+" false silently keeps the value false")
	}

	// safety net: a constant symbol is never created from a source without value.
	x.r12net()
}

func nameOrNil(f *types.Func) string {
	if f == nil {
		return "<none>"
	}
	return f.Name()
}

// assignsRval reports the position of a statement under n assigning the field rval of a
// node, directly or (depth > 0) in an in-package function called with a *node argument.
func assignsRval(ic *IC, n ast.Node, depth int) token.Pos {
	info := ic.Info
	res := token.NoPos
	ast.Inspect(n, func(m ast.Node) bool {
		if res != token.NoPos {
			return false
		}
		switch s := m.(type) {
		case *ast.AssignStmt:
			for _, l := range s.Lhs {
				if v := selField(info, l); v != nil && v.Name() == "rval" {
					res = s.Pos()
				}
			}
		case *ast.CallExpr:
			if depth == 0 {
				return true
			}
			f, ok := calleeOf(info, s).(*types.Func)
			if !ok || f.Pkg() != ic.Pk.Types {
				return true
			}
			fi := ic.G.Funcs[f]
			if fi == nil || fi.Decl.Body == nil {
				return true
			}
			hasNode := false
			for _, a := range s.Args {
				if t := info.TypeOf(a); t != nil && types.TypeString(t, func(*types.Package) string { return "" }) == "*node" {
					hasNode = true
				}
			}
			if hasNode && assignsRval(ic, fi.Decl.Body, depth-1) != token.NoPos {
				res = s.Pos()
			}
		}
		return true
	})
	return res
}

// r12net: wherever a symbol's kind becomes constSym under a test "the parent is a constant
// declaration", the same function rejects (assigns an error and leaves) a source whose rval
// is not valid, before that point. cfg compiles every constant specification (gta calls it for
// the global ones), so one guarded site in cfg covers both.
func (x *c02ctx) r12net() {
	ic, r := x.ic, x.r
	info := ic.Info
	fi := ic.fn(r, "Interpreter.cfg")
	if fi == nil {
		return
	}
	constSym, _ := ic.Pk.Types.Scope().Lookup("constSym").(*types.Const)
	constDecl, _ := ic.Pk.Types.Scope().Lookup("constDecl").(*types.Const)
	if constSym == nil || constDecl == nil {
		r.Errorf("R03.12: constants constSym/constDecl not found")
		return
	}
	// sites: X.kind = constSym
	var sites []*ast.AssignStmt
	ast.Inspect(fi.Decl.Body, func(m ast.Node) bool {
		as, ok := m.(*ast.AssignStmt)
		if !ok || len(as.Lhs) != 1 || len(as.Rhs) != 1 {
			return true
		}
		if id := identOf(as.Rhs[0]); id != nil && info.ObjectOf(id) == constSym {
			if v := selField(info, as.Lhs[0]); v != nil && v.Name() == "kind" {
				sites = append(sites, as)
			}
		}
		return true
	})
	if len(sites) == 0 {
		r.Errorf("R03.12: no statement of cfg marks a symbol as constSym")
		return
	}
	for _, site := range sites {
		path := enclosingPath(fi.Decl.Body, site)
		// the enclosing case clause
		var clause *ast.CaseClause
		for _, p := range path {
			if cc, ok := p.(*ast.CaseClause); ok {
				clause = cc
			}
		}
		if clause == nil {
			r.Errorf("R03.12: the constSym site at %s is not inside a case clause", ic.pos(site.Pos()))
			continue
		}
		// a guard: if <parent is constDecl> && !<src>.rval.IsValid() { err = ...; leave }
		guarded := false
		var gpos token.Pos
		ast.Inspect(clause, func(m ast.Node) bool {
			ifs, ok := m.(*ast.IfStmt)
			if !ok || ifs.Pos() >= site.Pos() {
				return true
			}
			mentionsDecl, invalidRval := false, false
			ast.Inspect(ifs.Cond, func(k ast.Node) bool {
				if id, ok := k.(*ast.Ident); ok && info.ObjectOf(id) == constDecl {
					mentionsDecl = true
				}
				if ue, ok := k.(*ast.UnaryExpr); ok && ue.Op == token.NOT {
					if call, ok := unparen(ue.X).(*ast.CallExpr); ok {
						if se, ok := call.Fun.(*ast.SelectorExpr); ok && se.Sel.Name == "IsValid" {
							if v := selField(info, se.X); v != nil && v.Name() == "rval" {
								invalidRval = true
							}
						}
					}
				}
				return true
			})
			if !mentionsDecl || !invalidRval || condHasOr(ifs.Cond) {
				return true
			}
			setsErr, leaves := false, false
			for _, s := range ifs.Body.List {
				if as, ok := s.(*ast.AssignStmt); ok {
					for _, l := range as.Lhs {
						if t := info.TypeOf(l); t != nil && types.TypeString(t, nil) == "error" {
							setsErr = true
						}
					}
				}
			}
			if len(ifs.Body.List) > 0 {
				switch last := ifs.Body.List[len(ifs.Body.List)-1].(type) {
				case *ast.BranchStmt:
					leaves = last.Tok == token.BREAK || last.Tok == token.GOTO
				case *ast.ReturnStmt:
					leaves = true
				}
			}
			if setsErr && leaves {
				guarded, gpos = true, ifs.Pos()
			}
			return true
		})
		pos := ic.pos(site.Pos())
		if guarded {
			pos = ic.pos(gpos)
		}
		r.Check(guarded, "R03.12", "cfg/constant-symbol-has-a-value", pos, "a constant specification whose source has no value is rejected before the symbol becomes a constant",
			"cfg marks the symbol of a constant specification as constSym ("+ic.pos(site.Pos())+") without first rejecting a source whose rval is not valid: whatever the compiler does not fold (an operator without folder, a call, an index expression) silently declares a constant holding the zero value")
	}
}

func condHasOr(e ast.Expr) bool {
	has := false
	ast.Inspect(e, func(m ast.Node) bool {
		if be, ok := m.(*ast.BinaryExpr); ok && be.Op == token.LOR {
			has = true
		}
		return true
	})
	return has
}

// c03R13: exactness of typed folding. The folders compute typed operands with the machine
// operators of int64/uint64/float64 and store the result with SetInt/SetUint/SetFloat, which
// truncates silently: `const c int8 = 100; const d = c + c` was -56. Every invocation of a
// folder through the table must therefore be preceded by the exact check. Found D57.
func (x *c02ctx) r13() {
	ic, r := x.ic, x.r
	info := ic.Info
	if x.constOpVar == nil {
		r.Errorf("R03.13: the constOp table variable was not resolved")
		return
	}
	// role of the exact check: in-package function returning error that calls
	// constant.BinaryOp, constant.UnaryOp, constant.Shift and the representability function.
	var repr *types.Func
	for f, fi := range ic.G.Funcs {
		sg := f.Type().(*types.Signature)
		if fi.Decl.Body != nil && sg.Recv() == nil && sg.Params().Len() == 2 && sg.Results().Len() == 1 &&
			types.TypeString(sg.Params().At(0).Type(), nil) == "go/constant.Value" && types.TypeString(sg.Params().At(1).Type(), nil) == "reflect.Type" &&
			types.Identical(sg.Results().At(0).Type(), types.Typ[types.Bool]) {
			if repr == nil || f.Pos() < repr.Pos() {
				repr = f
			}
		}
	}
	if repr == nil {
		r.Errorf("R03.13: the representability function func(constant.Value, reflect.Type) bool was not found")
		return
	}
	exact := map[*types.Func]bool{}
	var exactNames []string
	for f, fi := range ic.G.Funcs {
		if fi.Decl.Body == nil {
			continue
		}
		sg := f.Type().(*types.Signature)
		if sg.Results().Len() != 1 || types.TypeString(sg.Results().At(0).Type(), nil) != "error" {
			continue
		}
		if len(callsIn(info, fi.Decl.Body, true, "go/constant.BinaryOp")) == 0 || len(callsIn(info, fi.Decl.Body, true, "go/constant.UnaryOp")) == 0 || len(callsIn(info, fi.Decl.Body, true, "go/constant.Shift")) == 0 {
			continue
		}
		callsRepr := false
		for _, c := range allCalls(fi.Decl.Body) {
			if calleeOf(info, c) == repr {
				callsRepr = true
			}
		}
		if callsRepr {
			exact[f] = true
			exactNames = append(exactNames, funcName(fi.Decl))
		}
	}
	sort.Strings(exactNames)
	// invocations of the table: constOp[...](...)
	type inv struct {
		call *ast.CallExpr
		fi   *FuncInfo
	}
	var invs []inv
	for _, name := range sortedKeys(ic.F) {
		fi := ic.F[name]
		if fi.Decl.Body == nil {
			continue
		}
		ast.Inspect(fi.Decl.Body, func(m ast.Node) bool {
			call, ok := m.(*ast.CallExpr)
			if !ok {
				return true
			}
			if ix, ok := unparen(call.Fun).(*ast.IndexExpr); ok {
				if id := identOf(ix.X); id != nil && info.ObjectOf(id) == x.constOpVar {
					invs = append(invs, inv{call, fi})
				}
			}
			return true
		})
	}
	if len(invs) < 2 {
		r.Errorf("R03.13: %d invocations of the constOp table found (binary and unary expected)", len(invs))
		return
	}
	seenKey := map[string]int{}
	for _, iv := range invs {
		path := enclosingPath(iv.fi.Decl.Body, iv.call)
		clauseName := "?"
		for _, p := range path {
			if cc, ok := p.(*ast.CaseClause); ok && len(cc.List) > 0 {
				clauseName = types.ExprString(cc.List[0])
			}
		}
		key := funcName(iv.fi.Decl) + "/" + clauseName
		seenKey[key]++
		if seenKey[key] > 1 {
			key += "#" + string(rune('0'+seenKey[key]))
		}
		// guard: an earlier statement, in a statement list enclosing the invocation, of the form
		// `if E = exact(...); E != nil { leave }` or `E = exact(...)` followed by `if E != nil { leave }`.
		ok := false
		var gpos token.Pos
		for i := len(path) - 1; i >= 0 && !ok; i-- {
			var list []ast.Stmt
			switch b := path[i].(type) {
			case *ast.BlockStmt:
				list = b.List
			case *ast.CaseClause:
				list = b.Body
			default:
				continue
			}
			// index of the statement of this list containing the invocation
			at := -1
			for j, s := range list {
				if s.Pos() <= iv.call.Pos() && iv.call.End() <= s.End() {
					at = j
				}
			}
			for j := 0; j < at && !ok; j++ {
				if p := exactGuard(ic, exact, list, j); p != token.NoPos {
					ok, gpos = true, p
				}
			}
			if _, isClause := path[i].(*ast.CaseClause); isClause {
				break
			}
		}
		pos := ic.pos(iv.call.Pos())
		det := "preceded by the exact check"
		if ok {
			det += " at " + ic.pos(gpos)
		}
		r.Check(ok, "R03.13", key, pos, det,
			"the constant folder invoked through the constOp table at "+ic.pos(iv.call.Pos())+" is not preceded by an exact-result check ("+strings.Join(exactNames, ", ")+") whose error leaves the case: the folders compute typed operands in 64-bit machine arithmetic and store with SetInt/SetUint/SetFloat, so const c int8 = 100; const d = c + c evaluates to -56 instead of being rejected (constant 200 overflows int8)")
	}
	if len(exact) == 0 {
		r.Note("R03.13: no function has the role of the exact-result check (error result; constant.BinaryOp, UnaryOp, Shift and the representability function)")
	}
}

// exactGuard recognises, at list[j], the guard forms of R03.13 and returns its position.
func exactGuard(ic *IC, exact map[*types.Func]bool, list []ast.Stmt, j int) token.Pos {
	info := ic.Info
	callsExact := func(n ast.Node) types.Object { // the variable receiving the error of an exact call
		as, ok := n.(*ast.AssignStmt)
		if !ok || len(as.Lhs) != 1 || len(as.Rhs) != 1 {
			return nil
		}
		call, ok := unparen(as.Rhs[0]).(*ast.CallExpr)
		if !ok {
			return nil
		}
		f, _ := calleeOf(info, call).(*types.Func)
		if f == nil || !exact[f] {
			return nil
		}
		if id := identOf(as.Lhs[0]); id != nil {
			return info.ObjectOf(id)
		}
		return nil
	}
	leaves := func(b *ast.BlockStmt) bool {
		if len(b.List) == 0 {
			return false
		}
		switch last := b.List[len(b.List)-1].(type) {
		case *ast.BranchStmt:
			return last.Tok == token.BREAK || last.Tok == token.GOTO
		case *ast.ReturnStmt:
			return true
		}
		return false
	}
	testsNonNil := func(cond ast.Expr, v types.Object) bool {
		be, ok := unparen(cond).(*ast.BinaryExpr)
		if !ok || be.Op != token.NEQ {
			return false
		}
		id := identOf(be.X)
		y := identOf(be.Y)
		return id != nil && info.ObjectOf(id) == v && y != nil && y.Name == "nil"
	}
	switch s := list[j].(type) {
	case *ast.IfStmt:
		if s.Init != nil {
			if v := callsExact(s.Init); v != nil && testsNonNil(s.Cond, v) && leaves(s.Body) {
				return s.Pos()
			}
		}
	case *ast.AssignStmt:
		if v := callsExact(s); v != nil && j+1 < len(list) {
			if ifs, ok := list[j+1].(*ast.IfStmt); ok && ifs.Init == nil && testsNonNil(ifs.Cond, v) && leaves(ifs.Body) {
				return s.Pos()
			}
		}
	}
	return token.NoPos
}

func init() {
	ruleText["R03.14"] = "a function materialising a constant by its go/constant kind (switch over Value.Kind()) without being handed a target type consumes the exactness result of Int64Val/Uint64Val in its Int case: an untyped integer that does not fit is rejected, never wrapped"
}

// c03R14: functions switching over constant.Value.Kind() (no reflect.Type/Kind parameter, so the
// representability function is not in play) must not discard the exactness flag of the
// integer accessors. Round-5 seed: `i, _ := constant.Int64Val(c)` in convertConstantValue.
func c03R14(ic *IC, r *Report) {
	info := ic.Info
	n := 0
	for _, name := range sortedKeys(ic.F) {
		fi := ic.F[name]
		if fi.Decl.Body == nil || fi.Obj == nil {
			continue
		}
		sig := fi.Obj.Type().(*types.Signature)
		hasTarget := false
		for i := 0; i < sig.Params().Len(); i++ {
			ts := types.TypeString(sig.Params().At(i).Type(), nil)
			if ts == "reflect.Type" || ts == "reflect.Kind" {
				hasTarget = true
			}
		}
		if hasTarget {
			continue
		}
		ast.Inspect(fi.Decl.Body, func(m ast.Node) bool {
			sw, ok := m.(*ast.SwitchStmt)
			if !ok || sw.Tag == nil {
				return true
			}
			call, ok := unparen(sw.Tag).(*ast.CallExpr)
			if !ok || !isCallTo(info, call, "go/constant.Value.Kind") {
				return true
			}
			for _, st := range sw.Body.List {
				cc := st.(*ast.CaseClause)
				isInt := false
				for _, l := range cc.List {
					if se, ok := unparen(l).(*ast.SelectorExpr); ok && se.Sel.Name == "Int" {
						isInt = true
					}
				}
				if !isInt || len(callsIn(info, cc, true, "reflect.ValueOf")) == 0 {
					continue // the clause only tests the constant, it materialises nothing
				}
				for _, s := range cc.Body {
					ast.Inspect(s, func(k ast.Node) bool {
						as, ok := k.(*ast.AssignStmt)
						if !ok || len(as.Lhs) != 2 || len(as.Rhs) != 1 {
							return true
						}
						c, ok := unparen(as.Rhs[0]).(*ast.CallExpr)
						if !ok || !isCallTo(info, c, "go/constant.Int64Val", "go/constant.Uint64Val") {
							return true
						}
						n++
						id := identOf(as.Lhs[1])
						used := false
						if id != nil && id.Name != "_" {
							obj := info.ObjectOf(id)
							ast.Inspect(cc, func(q ast.Node) bool {
								if u, ok := q.(*ast.Ident); ok && u != id && info.ObjectOf(u) == obj {
									used = true
								}
								return true
							})
						}
						r.Check(used, "R03.14", funcName(fi.Decl)+"/integer-constant-materialised-exactly", ic.pos(as.Pos()), "the exactness result of the accessor is tested",
							funcName(fi.Decl)+" converts an integer constant with "+types.ExprString(as.Rhs[0])+" and discards the exactness result: an untyped constant outside the 64-bit range (1 << 63, math.MaxUint64 in a switch case, a channel send, the result of Eval) is silently wrapped instead of rejected")
						return true
					})
				}
			}
			return true
		})
	}
	if n == 0 {
		r.Errorf("R03.14: no function materialising integer constants by go/constant kind found")
	}
}

// c03R8width (R03.8, width clause): in the representability function each rounding accessor
// stands under a case naming the reflect kinds of its own width (Float32Val: Float32,
// Complex64; Float64Val: Float64, Complex128). A float case that rounds every constant through
// Float64Val accepts constants between MaxFloat32 and MaxFloat64 as float32 (round-5 seed).
func c03R8width(ic *IC, r *Report) {
	info := ic.Info
	var repr *FuncInfo
	for f, fi := range ic.G.Funcs {
		sg := f.Type().(*types.Signature)
		if fi.Decl.Body != nil && sg.Recv() == nil && sg.Params().Len() == 2 && sg.Results().Len() == 1 &&
			types.TypeString(sg.Params().At(0).Type(), nil) == "go/constant.Value" && types.TypeString(sg.Params().At(1).Type(), nil) == "reflect.Type" &&
			types.Identical(sg.Results().At(0).Type(), types.Typ[types.Bool]) {
			if repr == nil || fi.Decl.Pos() < repr.Decl.Pos() {
				repr = fi
			}
		}
	}
	if repr == nil {
		r.Errorf("R03.8: the representability function func(constant.Value, reflect.Type) bool was not found")
		return
	}
	want := map[string][]string{"Float32Val": {"Float32", "Complex64"}, "Float64Val": {"Float64", "Complex128"}}
	n := 0
	cnt := map[string]int{}
	for _, c := range callsIn(info, repr.Decl.Body, true, "go/constant.Float32Val", "go/constant.Float64Val") {
		name := calleeOf(info, c).Name()
		n++
		okKinds := false
		var named []string
		for _, p := range enclosingPath(repr.Decl.Body, c) {
			cc, ok := p.(*ast.CaseClause)
			if !ok {
				continue
			}
			for _, l := range cc.List {
				if se, ok := unparen(l).(*ast.SelectorExpr); ok {
					if id := identOf(se.X); id != nil && id.Name == "reflect" {
						named = append(named, se.Sel.Name)
					}
				}
			}
		}
		if len(named) > 0 {
			okKinds = true
			for _, k := range named {
				match := false
				for _, w := range want[name] {
					if k == w {
						match = true
					}
				}
				if !match {
					okKinds = false
				}
			}
		}
		cnt[name]++
		r.Check(okKinds, "R03.8", fmt.Sprintf("%s/%s#%d/under-a-case-of-its-width", funcName(repr.Decl), name, cnt[name]), ic.pos(c.Pos()), "the rounding accessor is applied to kinds of its own width only",
			fmt.Sprintf("%s rounds the constant with constant.%s outside a case naming exactly the kinds of that width (enclosing kind cases: %v): a constant is then tested against the range of another width, e.g. 1e39 accepted as float32 (it becomes +Inf) or 3.4028235e38 rejected", funcName(repr.Decl), name, named))
	}
	if n < 4 {
		r.Errorf("R03.8: only %d rounding accessors found in the representability function (float32, float64, complex64 x2, complex128 x2 expected)", n)
	}
}

func init() {
	ruleText["R03.15"] = "the implicit repetition of a constant specification (AST builder) happens once all the names of the specification are known and duplicates every expression of the previous specification: the duplication is guarded by a test of the number of names and loops over the previous right-hand sides"
}

// c03R15: found D87 (const ( a, b = 1, 2; c, d ) was rejected with "constant definition loop").
func c03R15(ic *IC, r *Report) {
	info := ic.Info
	fi := ic.fn(r, "Interpreter.ast")
	if fi == nil {
		return
	}
	nleft := ic.field("node", "nleft")
	nright := ic.field("node", "nright")
	n := 0
	ast.Inspect(fi.Decl.Body, func(m ast.Node) bool {
		ifs, ok := m.(*ast.IfStmt)
		if !ok {
			return true
		}
		// the implicit-repetition branch: condition mentions constDecl and nright == 0, body calls dup
		mentionsConst, zeroRight := false, false
		ast.Inspect(ifs.Cond, func(q ast.Node) bool {
			if id, ok := q.(*ast.Ident); ok {
				if c, ok := info.Uses[id].(*types.Const); ok && c.Name() == "constDecl" {
					mentionsConst = true
				}
			}
			if be, ok := q.(*ast.BinaryExpr); ok && be.Op == token.EQL && selField(info, be.X) == nright {
				zeroRight = true
			}
			return true
		})
		var dups []*ast.CallExpr
		for _, c := range allCalls(ifs.Body) {
			if f, ok := calleeOf(info, c).(*types.Func); ok && f.Name() == "dup" && f.Pkg() == ic.Pk.Types {
				dups = append(dups, c)
			}
		}
		if !mentionsConst || !zeroRight || len(dups) == 0 {
			return true
		}
		n++
		allNames := false
		ast.Inspect(ifs.Cond, func(q ast.Node) bool {
			if be, ok := q.(*ast.BinaryExpr); ok && be.Op == token.EQL {
				l, rr := types.ExprString(be.X), types.ExprString(be.Y)
				if (strings.HasPrefix(l, "len(") && selField(info, be.Y) == nleft) || (strings.HasPrefix(rr, "len(") && selField(info, be.X) == nleft) {
					allNames = true
				}
			}
			return true
		})
		inLoop := false
		for _, c := range dups {
			for _, p := range enclosingPath(ifs.Body, c) {
				switch p.(type) {
				case *ast.RangeStmt, *ast.ForStmt:
					inLoop = true
				}
			}
		}
		r.Check(allNames, "R03.15", "ast/implicit-repetition/after-the-last-name", ic.pos(ifs.Pos()), "the repetition waits for all the names of the specification",
			"the AST builder repeats the previous constant specification as soon as the first name of the implicit one is met ("+types.ExprString(ifs.Cond)+"): with several names the repeated expression lands between the names and the specification is rejected (const ( a, b = 1, 2; c, d ): constant definition loop)")
		r.Check(inLoop, "R03.15", "ast/implicit-repetition/every-expression-repeated", ic.pos(ifs.Pos()), "every expression of the previous specification is duplicated",
			"the AST builder duplicates one expression of the previous constant specification only (no loop over its right-hand sides): const ( a, b = 1, 2; c, d ) has one value for two names")
		return true
	})
	if n == 0 {
		r.Errorf("R03.15: the implicit repetition of constant specifications was not found in the AST builder")
	}
}

func init() {
	ruleText["R03.17"] = "in the exact-result check no acceptance (return nil) depends on the operator or on the magnitude of the operands: the guards of every return nil mention neither the operator token nor the node's action (the lookup of the token excepted) nor a bit length, sign, comparison or type size - every operator's exact result goes to the representability function (MinInt / -1 overflows too)"
	ruleText["R03.18"] = "a constant folder gives its node a fresh value: every assignment to node.rval in a function of the constOp table (and their helpers) is reflect.New(T).Elem() or reflect.ValueOf(...), never an operand's rval - the operand is the value of a named constant shared by all its uses"
	ruleText["R03.19"] = "in the unsigned case of the representability function every return that can be true is dominated by a sign or Uint64Val test of the constant: a bit-length test alone accepts negative constants (BitLen(-1) is 1)"
}

// c03R17..R03.19: round-6 seeds on the repaired constant code (D56-D58).
func c03R17to19(ic *IC, x *c02ctx, r *Report) {
	info := ic.Info
	// ---- R03.17: the exact check (same role as in R03.13)
	var repr *types.Func
	for f, fi := range ic.G.Funcs {
		sg := f.Type().(*types.Signature)
		if fi.Decl.Body != nil && sg.Recv() == nil && sg.Params().Len() == 2 && sg.Results().Len() == 1 &&
			types.TypeString(sg.Params().At(0).Type(), nil) == "go/constant.Value" && types.TypeString(sg.Params().At(1).Type(), nil) == "reflect.Type" &&
			types.Identical(sg.Results().At(0).Type(), types.Typ[types.Bool]) {
			repr = f
		}
	}
	nExact := 0
	for _, name := range sortedKeys(ic.F) {
		fi := ic.F[name]
		if fi.Decl.Body == nil || fi.Obj == nil {
			continue
		}
		sg := fi.Obj.Type().(*types.Signature)
		if sg.Results().Len() != 1 || types.TypeString(sg.Results().At(0).Type(), nil) != "error" {
			continue
		}
		if len(callsIn(info, fi.Decl.Body, true, "go/constant.BinaryOp")) == 0 || len(callsIn(info, fi.Decl.Body, true, "go/constant.UnaryOp")) == 0 || len(callsIn(info, fi.Decl.Body, true, "go/constant.Shift")) == 0 {
			continue
		}
		callsRepr := false
		for _, c := range allCalls(fi.Decl.Body) {
			if repr != nil && calleeOf(info, c) == repr {
				callsRepr = true
			}
		}
		if !callsRepr {
			continue
		}
		nExact++
		// variables of type token.Token
		isTok := func(id *ast.Ident) bool {
			t := info.TypeOf(id)
			return t != nil && types.TypeString(t, nil) == "go/token.Token"
		}
		k := 0
		ast.Inspect(fi.Decl.Body, func(m ast.Node) bool {
			rs, ok := m.(*ast.ReturnStmt)
			if !ok || len(rs.Results) != 1 {
				return true
			}
			if id := identOf(rs.Results[0]); id == nil || id.Name != "nil" {
				return true
			}
			k++
			bad := ""
			// the if conditions on the way, and the case expression when the return is the case's own
			// statement (a case that only selects how the exact result is computed is not a guard
			// of the acceptances nested in it)
			var conds []ast.Expr
			rpath := enclosingPath(fi.Decl.Body, rs)
			for i, p := range rpath {
				switch y := p.(type) {
				case *ast.IfStmt:
					conds = append(conds, y.Cond)
				case *ast.CaseClause:
					if i+1 < len(rpath) && rpath[i+1] == ast.Node(rs) {
						conds = append(conds, y.List...)
					}
				}
			}
			for _, cond := range conds {
				g := pathGuard{cond: cond}
				// an acceptance decided on the magnitude of the operands (a fast path "small operands
				// cannot overflow") is not a validity test either
				for _, c := range callsIn(info, cond, true, "go/constant.BitLen", "go/constant.Sign", "go/constant.Compare", "reflect.Type.Bits", "reflect.Type.Size") {
					bad = types.ExprString(cond) + " (a test of the operands' magnitude: " + types.ExprString(c.Fun) + ")"
				}
				ast.Inspect(g.cond, func(q ast.Node) bool {
					switch e := q.(type) {
					case *ast.Ident:
						if _, isVar := info.ObjectOf(e).(*types.Var); isVar && isTok(e) {
							bad = types.ExprString(g.cond)
						}
					case *ast.SelectorExpr:
						if v := selField(info, e); v != nil && v.Name() == "action" {
							bad = types.ExprString(g.cond)
						}
					}
					return true
				})
			}
			r.Check(bad == "", "R03.17", fmt.Sprintf("%s/acceptance#%d/independent-of-the-operator", name, k), ic.pos(rs.Pos()), "the acceptance does not depend on the operator",
				name+" accepts the constant expression without computing its exact result under "+bad+", a condition on the operator or on the size of the operands: an operator or operand assumed harmless (uint8(3) - uint8(4) has small operands and no representable result), or an operator assumed not to grow (quotient, remainder, bitwise) can still leave the type - int8(-128) / int8(-1) is 128 - and is then folded by wrapping machine arithmetic")
			return true
		})
	}
	if nExact == 0 {
		r.Errorf("R03.17: the exact-result check was not found")
	}
	// ---- R03.18: folders assign fresh values
	rvalFld := ic.field("node", "rval")
	seen := map[*types.Func]bool{}
	var folders []*types.Func
	for _, f := range x.constOp {
		if f != nil && !seen[f] {
			seen[f] = true
			folders = append(folders, f)
		}
	}
	// helpers called by a folder with the node
	for _, f := range append([]*types.Func{}, folders...) {
		if fi := ic.G.Funcs[f]; fi != nil && fi.Decl.Body != nil {
			for _, c := range allCalls(fi.Decl.Body) {
				if g, ok := calleeOf(info, c).(*types.Func); ok && g.Pkg() == ic.Pk.Types && !seen[g] {
					if gi := ic.G.Funcs[g]; gi != nil && gi.Decl.Body != nil && gi.Decl.Recv == nil {
						sg := g.Type().(*types.Signature)
						if sg.Params().Len() > 0 && isNamedPtr(sg.Params().At(0).Type(), "node") {
							seen[g] = true
							folders = append(folders, g)
						}
					}
				}
			}
		}
	}
	sort.Slice(folders, func(i, j int) bool { return folders[i].Name() < folders[j].Name() })
	nF := 0
	for _, f := range folders {
		fi := ic.G.Funcs[f]
		if fi == nil || fi.Decl.Body == nil {
			continue
		}
		var bad []string
		assigns := 0
		ast.Inspect(fi.Decl.Body, func(m ast.Node) bool {
			as, ok := m.(*ast.AssignStmt)
			if !ok || len(as.Lhs) != len(as.Rhs) {
				return true
			}
			for i, l := range as.Lhs {
				if selField(info, l) != rvalFld {
					continue
				}
				assigns++
				fresh := false
				if c, ok := unparen(as.Rhs[i]).(*ast.CallExpr); ok {
					if isCallTo(info, c, "reflect.ValueOf") || (isCallTo(info, c, "reflect.Value.Elem") && len(callsIn(info, c, true, "reflect.New")) > 0) || isCallTo(info, c, "reflect.Value.Convert") {
						fresh = true
					}
				}
				if !fresh {
					bad = append(bad, types.ExprString(as.Rhs[i])+" at "+ic.pos(as.Pos()))
				}
			}
			return true
		})
		if assigns == 0 {
			continue
		}
		nF++
		r.Check(len(bad) == 0, "R03.18", f.Name()+"/result-is-a-fresh-value", ic.pos(fi.Decl.Pos()), "the folder's node receives a fresh value",
			"the constant folder "+f.Name()+" gives its node a value that is not fresh ("+strings.Join(bad, "; ")+") and then sets the result into it: when that value is an operand's rval, i.e. the value of a named constant, the constant itself is overwritten for all its other uses (const x = 5; y := -x; z := x gives z == -5)")
	}
	if nF < 10 {
		r.Errorf("R03.18: only %d constant folders assigning node.rval found", nF)
	}
	// ---- R03.19: unsigned case rejects negatives
	if repr != nil {
		fi := ic.G.Funcs[repr]
		var unsignedCase *ast.CaseClause
		ast.Inspect(fi.Decl.Body, func(n ast.Node) bool {
			cc, ok := n.(*ast.CaseClause)
			if !ok {
				return true
			}
			cls := map[string]bool{}
			for _, l := range cc.List {
				if se, ok := unparen(l).(*ast.SelectorExpr); ok {
					if c, ok := info.Uses[se.Sel].(*types.Const); ok && c.Pkg() != nil && c.Pkg().Path() == "reflect" {
						cls[kindClass[c.Name()]] = true
					}
				}
			}
			if len(cls) == 1 && cls["uint"] {
				unsignedCase = cc
			}
			return true
		})
		if unsignedCase == nil {
			r.Errorf("R03.19: the unsigned case of the representability function was not found")
			return
		}
		// the code executed for unsigned kinds: the case body and what follows the kind switch in the
		// enclosing clause; every return not the constant false must come after a sign test
		signTests := callsIn(info, unsignedCase, true, "go/constant.Uint64Val", "go/constant.Sign")
		// enclosing statement list after the inner switch
		var region []ast.Node
		region = append(region, unsignedCase)
		path := enclosingPath(fi.Decl.Body, unsignedCase)
		for i := len(path) - 1; i > 0; i-- {
			if sw, ok := path[i].(*ast.SwitchStmt); ok {
				if outer, ok := path[i-1].(*ast.CaseClause); ok {
					after := false
					for _, s := range outer.Body {
						if after {
							region = append(region, s)
						}
						if s == ast.Stmt(sw) {
							after = true
						}
					}
				}
				break
			}
		}
		var bad []string
		for _, reg := range region {
			ast.Inspect(reg, func(m ast.Node) bool {
				rs, ok := m.(*ast.ReturnStmt)
				if !ok || len(rs.Results) != 1 {
					return true
				}
				if id := identOf(rs.Results[0]); id != nil && id.Name == "false" {
					return true
				}
				// a sign test before, on the way: position-wise earlier in the unsigned case with an
				// early `return false`, or the returned expression is the test's own result
				okSign := false
				for _, st := range signTests {
					if st.Pos() < rs.Pos() {
						// the test guards an early return false or its ok result is what is returned
						for _, p := range enclosingPath(unsignedCase, st) {
							if ifs, isIf := p.(*ast.IfStmt); isIf && len(ifs.Body.List) > 0 {
								if r2, isRet := ifs.Body.List[len(ifs.Body.List)-1].(*ast.ReturnStmt); isRet && len(r2.Results) == 1 {
									if id := identOf(r2.Results[0]); id != nil && id.Name == "false" && ifs.End() <= rs.Pos() {
										// the early exit must not itself be under a narrower condition
										guards := pathGuards(unsignedCase, ifs)
										if len(guards) == 0 {
											okSign = true
										}
									}
								}
							}
						}
					}
				}
				if len(callsIn(info, rs, true, "go/constant.Sign")) > 0 {
					okSign = true
				}
				if id := identOf(rs.Results[0]); id != nil && !okSign {
					// `_, ok := constant.Uint64Val(x); return ok`
					obj := info.ObjectOf(id)
					ast.Inspect(unsignedCase, func(q ast.Node) bool {
						if as, isAs := q.(*ast.AssignStmt); isAs && len(as.Lhs) == 2 && len(as.Rhs) == 1 {
							if l := identOf(as.Lhs[1]); l != nil && info.ObjectOf(l) == obj {
								if c, isC := unparen(as.Rhs[0]).(*ast.CallExpr); isC && isCallTo(info, c, "go/constant.Uint64Val") {
									okSign = true
								}
							}
						}
						return true
					})
				}
				if !okSign {
					bad = append(bad, "return "+types.ExprString(rs.Results[0])+" at "+ic.pos(rs.Pos()))
				}
				return true
			})
		}
		r.Check(len(bad) == 0, "R03.19", funcName(fi.Decl)+"/unsigned/negative-constants-rejected", ic.pos(unsignedCase.Pos()), "every accepting return of the unsigned case follows a sign test",
			"in the unsigned case of "+funcName(fi.Decl)+" "+strings.Join(bad, "; ")+" can accept the constant without a sign (or Uint64Val) test on the way: the bit length of a negative number is that of its magnitude, so uint8(-1) is accepted (and evaluates to 255) instead of being rejected")
	}
}

func init() {
	ruleText["R03.22"] = "= R12.32: the conversion of a typed numeric constant is checked for representability in the target type (typecheck.conversion obtains the constant from the operand's value through constantOf)"
	ruleText["R03.21"] = "a constant folder obtains its result from go/constant: the value a function of the constOp table stores for a constant operand is the result of constant.BinaryOp, UnaryOp, Shift or Compare called in the folder, or of an in-package helper all of whose returns are such calls - a helper answering some operands itself (a shortcut for large shift counts) replaces the exact result by its author's arithmetic"
}

// c03R21: round-7 seed. The shift folders were moved onto a helper constShift returning 0 when the
// count reaches the bit length: -1 >> 1 folded to 0 instead of -1.
func c03R21(ic *IC, x *c02ctx, r *Report) {
	info := ic.Info
	exact := []string{"go/constant.BinaryOp", "go/constant.UnaryOp", "go/constant.Shift", "go/constant.Compare"}
	seen := map[*types.Func]bool{}
	var folders []*types.Func
	for _, f := range x.constOp {
		if f != nil && !seen[f] {
			seen[f] = true
			folders = append(folders, f)
		}
	}
	sort.Slice(folders, func(i, j int) bool { return folders[i].Name() < folders[j].Name() })
	n := 0
	for _, f := range folders {
		fi := ic.G.Funcs[f]
		if fi == nil || fi.Decl.Body == nil {
			continue
		}
		// the clause for constant operands: the value it computes
		ast.Inspect(fi.Decl.Body, func(q ast.Node) bool {
			as, ok := q.(*ast.AssignStmt)
			if !ok || len(as.Lhs) != 1 || len(as.Rhs) != 1 || as.Tok != token.DEFINE {
				return true
			}
			t := info.TypeOf(as.Lhs[0])
			if t == nil || types.TypeString(t, nil) != "go/constant.Value" {
				return true
			}
			c, ok := unparen(as.Rhs[0]).(*ast.CallExpr)
			if !ok {
				return true
			}
			if isCallTo(info, c, exact...) {
				n++
				return true
			}
			h, ok := calleeOf(info, c).(*types.Func)
			if !ok || h.Pkg() != ic.Pk.Types {
				return true
			}
			hd := ic.G.Funcs[h]
			if hd == nil || hd.Decl.Body == nil || h.Name() == "vConstantValue" || h.Name() == "constantOf" {
				return true
			}
			n++
			var bad []string
			ast.Inspect(hd.Decl.Body, func(z ast.Node) bool {
				rs, ok := z.(*ast.ReturnStmt)
				if !ok || len(rs.Results) != 1 {
					return true
				}
				if rc, ok := unparen(rs.Results[0]).(*ast.CallExpr); ok && isCallTo(info, rc, exact...) {
					return true
				}
				bad = append(bad, "return "+types.ExprString(rs.Results[0])+" at "+ic.pos(rs.Pos()))
				return true
			})
			r.Check(len(bad) == 0, "R03.21", f.Name()+"/exact-result-from-go-constant:"+h.Name(), ic.pos(as.Pos()), "every return of the helper is a go/constant operation",
				"the constant folder "+f.Name()+" takes its result from "+h.Name()+", which answers some operands itself ("+strings.Join(bad, "; ")+") instead of asking go/constant: a right shift of a negative constant by at least its bit length is -1, not 0 (-1 >> 1, -8 >> 4)")
			return true
		})
	}
	if n < 8 {
		r.Errorf("R03.21: only %d exact results computed by the constant folders found", n)
	} else {
		r.Pass("R03.21", "folders/exact-results-from-go-constant", "", fmt.Sprintf("%d exact results, each from a go/constant operation (or a helper returning only such operations)", n))
	}
}

func init() {
	ruleText["R03.23"] = "the compile-time builtins of package unsafe are named the same everywhere: in every group of alternative string literals of package interp (the list of a case clause, a chain x == \"a\" || x == \"b\") in which one member is a builtin name of package unsafe - as it stands, or once prefixed by \"unsafe.\" - every member is one declared as constants (bltnAlignof, bltnOffsetof, bltnSizeof = \"unsafe.Alignof\", ...) - a spelling that matches none (\"AlignOf\", \"unsafe.alignOf\") silently leaves the call to the run-time replacement, which is not a constant and looks at the dynamic type of its operand"
}

// c03R23: D124. The selector case compared the name with "AlignOf", the builtin case with
// "unsafe.alignOf": unsafe.Alignof(x) was never a constant.
func c03R23(ic *IC, r *Report) {
	info := ic.Info
	names := map[string]bool{}
	declPos := map[token.Pos]bool{}
	sc := ic.Pk.Types.Scope()
	for _, nm := range sc.Names() {
		c, ok := sc.Lookup(nm).(*types.Const)
		if !ok || !strings.HasPrefix(nm, "bltn") || c.Val().Kind() != constant.String {
			continue
		}
		if v := constant.StringVal(c.Val()); strings.HasPrefix(v, "unsafe.") {
			names[v] = true
			declPos[c.Pos()] = true
		}
	}
	if len(names) < 3 {
		r.Errorf("R03.23: only %d builtin names of package unsafe found among the bltn constants", len(names))
		return
	}
	n := 0
	var bad []string
	checkLit := func(l *ast.BasicLit, full string) {
		n++
		if !names[full] {
			bad = append(bad, l.Value+" at "+ic.pos(l.Pos()))
		}
	}
	// groups of alternatives: the list of a case clause, or a chain x == "a" || x == "b"
	group := func(lits []*ast.BasicLit) {
		for _, prefix := range []string{"", "unsafe."} {
			relevant := false
			for _, l := range lits {
				if names[prefix+strings.Trim(l.Value, "\"")] {
					relevant = true
				}
			}
			if !relevant {
				continue
			}
			for _, l := range lits {
				if v := strings.Trim(l.Value, "\""); prefix != "" || strings.HasPrefix(v, "unsafe.") {
					checkLit(l, prefix+v)
				}
			}
			return
		}
	}
	var orChain func(e ast.Expr, out *[]*ast.BasicLit) bool
	orChain = func(e ast.Expr, out *[]*ast.BasicLit) bool {
		b, ok := unparen(e).(*ast.BinaryExpr)
		if !ok {
			return false
		}
		if b.Op == token.LOR {
			return orChain(b.X, out) && orChain(b.Y, out)
		}
		if b.Op == token.EQL {
			if l, ok := unparen(b.Y).(*ast.BasicLit); ok && l.Kind == token.STRING {
				*out = append(*out, l)
				return true
			}
		}
		return false
	}
	for _, file := range ic.Pk.Syntax {
		if strings.HasSuffix(ic.P.Fset.Position(file.Pos()).Filename, "_test.go") {
			continue
		}
		ast.Inspect(file, func(q ast.Node) bool {
			switch y := q.(type) {
			case *ast.CaseClause:
				var lits []*ast.BasicLit
				for _, e := range y.List {
					if l, ok := unparen(e).(*ast.BasicLit); ok && l.Kind == token.STRING {
						lits = append(lits, l)
					}
				}
				if len(lits) > 0 && len(lits) == len(y.List) {
					group(lits)
				}
			case *ast.BinaryExpr:
				if y.Op == token.LOR {
					var lits []*ast.BasicLit
					if orChain(y, &lits) && len(lits) > 1 {
						group(lits)
						return false
					}
				}
			}
			return true
		})
	}
	_ = info
	r.Check(len(bad) == 0, "R03.23", "package/unsafe-builtin-names-agree", "", fmt.Sprintf("%d spellings checked against %s", n, strings.Join(sortedKeys(names), ", ")),
		"package interp spells a compile-time builtin of package unsafe in a way that matches none of the declared names ("+strings.Join(sortedKeys(names), ", ")+"): "+strings.Join(bad, "; ")+". The test never holds, so unsafe.Alignof(x) is not recognised as a builtin: `const c = unsafe.Alignof(int8(0))` is rejected (initializer is not a constant), an array length using it is undefined, and the call falls to the run-time replacement, which answers for the dynamic type of an interface operand (1 instead of 8)")
	if n < 4 {
		r.Errorf("R03.23: only %d spellings of unsafe builtins found outside the constant declarations", n)
	}
}

func init() {
	ruleText["R03.24"] = "every constant declaration numbers its specifications from zero: in each case of the walks of gta and cfg (pre-order) that handles the constDecl kind before its specifications are visited, the scope's iota counter is assigned 0 by a direct statement of the case, and no call of the early compilation (Interpreter.cfg) follows it in the case - the counter is otherwise reset only by the last specification of a declaration that *succeeds*, so a failed declaration (or a failed early compilation) leaves its count to the next one"
}

// c03R24: D130 (round-7 report on C03, item 2; round-8 report on C11, E4).
func c03R24(ic *IC, r *Report) {
	info := ic.Info
	iotaFld := ic.field("scope", "iota")
	if iotaFld == nil {
		r.Errorf("R03.24: field scope.iota not found")
		return
	}
	n := 0
	for _, fname := range []string{"Interpreter.gta", "Interpreter.cfg"} {
		fi := ic.fn(r, fname)
		if fi == nil {
			continue
		}
		ast.Inspect(fi.Decl.Body, func(q ast.Node) bool {
			cc, ok := q.(*ast.CaseClause)
			if !ok {
				return true
			}
			ls := kindLabels(ic, cc)
			if len(ls) != 1 || ls[0] != "constDecl" {
				return true
			}
			// the cases that run before the specifications are visited: those calling the early compilation
			if len(callsIn(info, cc, false, "interp.Interpreter.cfg")) == 0 {
				return true
			}
			n++
			resetAt := -1
			for i, st := range cc.Body {
				if as, ok := st.(*ast.AssignStmt); ok && len(as.Lhs) == 1 && len(as.Rhs) == 1 {
					if se, ok := unparen(as.Lhs[0]).(*ast.SelectorExpr); ok && selField(info, se) == iotaFld {
						if l, ok := unparen(as.Rhs[0]).(*ast.BasicLit); ok && l.Value == "0" {
							resetAt = i
						}
					}
				}
			}
			ok = resetAt >= 0
			why := "the case never assigns 0 to the counter by a direct statement"
			if ok {
				for _, st := range cc.Body[resetAt+1:] {
					if len(callsIn(info, st, false, "interp.Interpreter.cfg")) > 0 {
						ok = false
						why = "the early compilation is called after the reset (" + ic.pos(st.Pos()) + ") and may leave the counter advanced"
					}
				}
			}
			r.Check(ok, "R03.24", fname+"/case:constDecl/specifications-numbered-from-zero", ic.pos(cc.Pos()), "the counter is reset by a direct statement of the case, after the early compilation",
				"in the constDecl case of "+fname+" "+why+": iota keeps the count a failed declaration (or a failed early compilation of this one) has left - after `const ( a = iota; b = undefinedX; c )` is rejected, `const ( d = iota; e )` gives d = 3, e = 4")
			return true
		})
	}
	if n < 2 {
		r.Errorf("R03.24: only %d constDecl cases running the early compilation found (gta and the pre-order pass of cfg expected)", n)
	}
}

func init() {
	ruleText["R03.25"] = "no exit of the type rule of binary operators bypasses the agreement of the operand types: in typecheck.binaryExpr every `return nil` that lies inside the switch over the operator (an early acceptance for some operator, such as the constant quotient) is preceded in its block by a test of the operand types against each other (equals) that reports an error - the general test at the end of the function is not reached from there (= R12.39)"
}

// c03R25: D146. const a int = 6; const b int8 = 2; a / b was accepted and gave 3.
func c03R25(ic *IC, r *Report, rule string) {
	info := ic.Info
	be := ic.fn(r, "typecheck.binaryExpr")
	if be == nil {
		return
	}
	n := 0
	ast.Inspect(be.Decl.Body, func(q ast.Node) bool {
		sw, ok := q.(*ast.SwitchStmt)
		if !ok {
			return true
		}
		ast.Inspect(sw.Body, func(z ast.Node) bool {
			blk, ok := z.(*ast.BlockStmt)
			if !ok {
				return true
			}
			for i, st := range blk.List {
				rs, ok := st.(*ast.ReturnStmt)
				if !ok || len(rs.Results) != 1 {
					continue
				}
				if id := identOf(rs.Results[0]); id == nil || id.Name != "nil" {
					continue
				}
				n++
				checked := false
				for _, prev := range blk.List[:i] {
					if ifs, ok := prev.(*ast.IfStmt); ok && len(callsIn(info, ifs.Cond, true, "interp.itype.equals")) > 0 && len(callsIn(info, ifs.Body, true, "interp.node.cfgErrorf")) > 0 {
						checked = true
					}
				}
				r.Check(checked, rule, fmt.Sprintf("typecheck.binaryExpr/early-acceptance#%d/operand-types-agree", n), ic.pos(rs.Pos()), "the early acceptance is preceded by the agreement test of the operand types",
					"typecheck.binaryExpr accepts the expression at "+ic.pos(rs.Pos())+" without having compared the types of its operands: the test at the end of the function (mismatched types) is not reached, so `const a int = 6; const b int8 = 2; a / b` is accepted and gives 3, and `const a int = 4; const b float64 = 2; a / b` gives 2 (compiled Go: invalid operation: mismatched types)")
			}
			return true
		})
		return false
	})
	if n == 0 {
		r.Errorf("%s: no early acceptance found in the operator switch of typecheck.binaryExpr", rule)
	}
}
