package main

import (
	"fmt"
	"go/ast"
	"go/token"
	"go/types"
	"sort"
	"strings"
)

func init() {
	ruleText["R12.26"] = "untyped nil is considered by every case of the conversion of an untyped operand: each case of the switch of typecheck.convertUntyped over the target type either tests whether the operand is nil (isNil) or only returns the conversion error - a case that goes on to the constant conversion without that test accepts nil for its targets (var a int = nil)"
	ruleText["R12.27"] = "in typecheck.binaryExpr the error of the conversion of an untyped operand to the type of the other operand is returned before the comparison rule is applied: every call of convertUntyped that precedes the call of comparison is either of the form `if err := ...; err != nil { return ... }` or defines a variable that an `if v != nil { return v }` tests in a block enclosing the call of comparison, before it (comparison itself relies on assignability, which accepts any untyped constant for a numeric type)"
	ruleText["R12.28"] = "the constant operands of a return statement are checked for representability in the result type: the loop over the operands in the returnStmt case of cfg calls a rule of the type checker that decides representability (assignment, convertUntyped or representable)"
	ruleText["R12.29"] = "a call whose callee is not a function is rejected at compile time: in the callExpr case of cfg, the branch for calls of interpreted functions tests that the type of the callee is a function (isFunc / isFuncSrc) and reports an error, before the arguments are checked"
	ruleText["R12.31"] = "= R01.37 (b) and (c): an unlabelled break or continue whose scope records no enclosing loop (switch, select) of the same function is an error; the scope of a function literal does not inherit the loops that enclose the literal"
	ruleText["R12.32"] = "the conversion rule knows the value of a typed constant operand too: in typecheck.conversion the constant handed to the representability test (first argument of representableConst) is also obtained from the operand's value through constantOf, not only by asserting that the value is a constant.Value - the value of a typed constant is a plain Go value, for which that assertion fails and the representability test is skipped (= R03.22)"
	ruleText["R12.33"] = "a constant index is never negative: typecheck.index compares the constant value of the index with zero (< 0, or <= -1) under a condition that reports an error, and no earlier statement of the function returns nil under a condition on the upper bound it was given - slices, strings and make sizes have no constant upper bound, but the lower bound holds for all"
	ruleText["R12.34"] = "the element of a string is not a destination: each case of cfg that stores into its operand - the assignStmt/defineStmt case for every destination of its pair loop, and the incDecStmt case - tests whether the destination is an index expression on a string (isStringElem, or isString applied to the type of the indexed operand) under a condition that reports an error; the two cases are siblings and must agree"
	ruleText["R12.30"] = "the source of a single assignment is single-valued: in the loop over the destination/source pairs of the assignStmt/defineStmt case of cfg, the number of results of a source which is a call is compared with a constant under a condition that decides an error (a := f() with a function returning two values, or none)"
}

type earlierCase struct {
	names   map[string]bool
	nilTest bool
}

// c12R26to30: late repairs D113-D117 (found in the round-6 report on C12, section 2.1/2.2).
func c12R26to30(ic *IC, r *Report) {
	info := ic.Info
	// ---- R12.26
	if cu := ic.fn(r, "typecheck.convertUntyped"); cu != nil {
		var sw *ast.SwitchStmt
		ast.Inspect(cu.Decl.Body, func(q ast.Node) bool {
			s, ok := q.(*ast.SwitchStmt)
			if ok && s.Tag == nil && len(callsIn(info, s, true, "interp.itype.isNil")) > 0 && sw == nil {
				sw = s
			}
			return true
		})
		if sw == nil {
			r.Errorf("R12.26: the switch over the target type (with a case testing isNil) was not found in typecheck.convertUntyped")
		} else {
			n := 0
			var earlier []earlierCase
			for _, st := range sw.Body.List {
				c := st.(*ast.CaseClause)
				key := "default"
				if c.List != nil {
					var names []string
					seen := map[string]bool{}
					for _, e := range c.List {
						ast.Inspect(e, func(z ast.Node) bool {
							if call, ok := z.(*ast.CallExpr); ok {
								if o := calleeOf(info, call); o != nil && !seen[o.Name()] {
									seen[o.Name()] = true
									names = append(names, o.Name())
								}
							}
							return true
						})
					}
					sort.Strings(names)
					key = strings.Join(names, "|")
				}
				n++
				considers := len(callsIn(info, c, true, "interp.itype.isNil")) > 0
				// ... or an earlier case already took untyped nil away for the same targets:
				// its condition tests isNil together with (at least) the predicates of this case
				if !considers && c.List != nil {
					for _, e := range earlier {
						covers := e.nilTest
						for _, nm := range strings.Split(key, "|") {
							if !e.names[nm] {
								covers = false
							}
						}
						if covers {
							considers = true
						}
					}
				}
				{
					ec := earlierCase{names: map[string]bool{}}
					for _, e := range c.List {
						ast.Inspect(e, func(z ast.Node) bool {
							if call, ok := z.(*ast.CallExpr); ok {
								if o := calleeOf(info, call); o != nil {
									ec.names[o.Name()] = true
									if o.Name() == "isNil" {
										ec.nilTest = true
									}
								}
							}
							return true
						})
					}
					earlier = append(earlier, ec)
				}
				onlyErr := false
				if len(c.Body) == 1 {
					if rs, ok := c.Body[0].(*ast.ReturnStmt); ok && len(rs.Results) == 1 {
						if id := identOf(rs.Results[0]); id == nil || id.Name != "nil" {
							onlyErr = true
						}
					}
				}
				r.Check(considers || onlyErr, "R12.26", "typecheck.convertUntyped/case:"+key+"/untyped-nil-considered", ic.pos(c.Pos()), "the case tests isNil or only returns the conversion error",
					"the case "+key+" of typecheck.convertUntyped goes on to the conversion of the constant without testing whether the operand is the untyped nil: nil has no constant value, representable and convertConst let it through, and `var a int = nil`, f(nil) for an int parameter or s = nil for a string are accepted (compiled Go: cannot use nil as int value)")
			}
			if n < 4 {
				r.Errorf("R12.26: only %d cases found in the switch of typecheck.convertUntyped", n)
			}
		}
	}
	// ---- R12.27
	if be := ic.fn(r, "typecheck.binaryExpr"); be != nil {
		cmps := callsIn(info, be.Decl.Body, false, "interp.typecheck.comparison")
		convs := callsIn(info, be.Decl.Body, false, "interp.typecheck.convertUntyped")
		if len(cmps) != 1 || len(convs) == 0 {
			r.Errorf("R12.27: %d calls of comparison and %d calls of convertUntyped found in typecheck.binaryExpr (1 and at least 1 expected)", len(cmps), len(convs))
		} else {
			cmp := cmps[0]
			path := enclosingPath(be.Decl.Body, cmp)
			for i, cv := range convs {
				if cv.Pos() > cmp.Pos() {
					continue
				}
				ok, why := false, "its result is discarded"
				cpath := enclosingPath(be.Decl.Body, cv)
				// the statement holding the call
				var holder ast.Stmt
				for j := len(cpath) - 1; j >= 0; j-- {
					if s, isStmt := cpath[j].(ast.Stmt); isStmt {
						holder = s
						break
					}
				}
				var v types.Object
				if as, isAs := holder.(*ast.AssignStmt); isAs && len(as.Lhs) == 1 {
					if id := identOf(as.Lhs[0]); id != nil && id.Name != "_" {
						v = info.ObjectOf(id)
					}
				}
				if v != nil {
					why = "the variable " + v.Name() + " it defines is not returned when non-nil before the call of comparison"
					test := func(ifs *ast.IfStmt) bool {
						// v != nil is the condition, or a disjunct of it, and the body ends with a return
						var disj func(e ast.Expr) bool
						disj = func(e ast.Expr) bool {
							b, isB := unparen(e).(*ast.BinaryExpr)
							if !isB {
								return false
							}
							if b.Op == token.LOR {
								return disj(b.X) || disj(b.Y)
							}
							x, y := identOf(b.X), identOf(b.Y)
							return b.Op == token.NEQ && x != nil && y != nil && info.ObjectOf(x) == v && y.Name == "nil"
						}
						if !disj(ifs.Cond) || len(ifs.Body.List) == 0 {
							return false
						}
						_, isRet := ifs.Body.List[len(ifs.Body.List)-1].(*ast.ReturnStmt)
						return isRet
					}
					// the init form: if err := conv(); err != nil { return }
					for j := len(cpath) - 1; j >= 0; j-- {
						if ifs, isIf := cpath[j].(*ast.IfStmt); isIf && ifs.Init == holder && test(ifs) {
							ok = true
						}
					}
					// a later test in a block enclosing the call of comparison, before it
					for _, p := range path {
						blk, isBlk := p.(*ast.BlockStmt)
						if !isBlk {
							continue
						}
						for _, s := range blk.List {
							if s.Pos() > cmp.Pos() {
								break
							}
							if ifs, isIf := s.(*ast.IfStmt); isIf && ifs.Pos() > cv.Pos() && test(ifs) {
								ok = true
							}
						}
					}
				}
				r.Check(ok, "R12.27", fmt.Sprintf("typecheck.binaryExpr/conversion#%d/error-returned-before-the-comparison", i+1), ic.pos(cv.Pos()), "the error of the conversion is returned before comparison is applied",
					"typecheck.binaryExpr converts an untyped operand to the type of the other one with "+types.ExprString(cv)+" and "+why+": the comparison rule that follows relies on assignability, which accepts any untyped constant for a numeric type, so `var a int8; a < 200`, `x == 1<<64` and `a == nil` for an int are accepted (compiled Go: 200 overflows int8; invalid operation: mismatched types int and untyped nil)")
			}
		}
	}
	c12R32(ic, r, "R12.32")
	c12R33(ic, r)
	cfgFn := ic.fn(r, "Interpreter.cfg")
	if cfgFn == nil {
		return
	}
	findCase := func(label string, marker string) *ast.CaseClause {
		var cc *ast.CaseClause
		ast.Inspect(cfgFn.Decl.Body, func(q ast.Node) bool {
			c, ok := q.(*ast.CaseClause)
			if !ok {
				return true
			}
			for _, l := range kindLabels(ic, c) {
				if l == label && len(callsIn(info, c, true, marker)) > 0 {
					cc = c
				}
			}
			return true
		})
		return cc
	}
	// ---- R12.28
	if cc := findCase("returnStmt", "interp.mustReturnValue"); cc == nil {
		r.Errorf("R12.28: the returnStmt case of cfg was not found")
	} else {
		found := ""
		for _, c := range callsIn(info, cc, true, "interp.typecheck.assignment", "interp.typecheck.convertUntyped", "interp.typecheck.representable") {
			for _, p := range enclosingPath(cc, c) {
				switch p.(type) {
				case *ast.RangeStmt, *ast.ForStmt:
					found = ic.pos(c.Pos())
				}
			}
		}
		r.Check(found != "", "R12.28", "cfg/case:returnStmt/constant-operands-representable", ic.pos(cc.Pos()), "the loop over the operands applies a representability rule ("+found+")",
			"the returnStmt case of cfg compares the operands with the result types by assignability only, which accepts any untyped constant for a numeric type: `func f() uint8 { return 256 }` and `return -1` for a uint result are accepted and the value wraps at run time (compiled Go: 256 overflows uint8)")
	}
	// ---- R12.29
	if cc := findCase("callExpr", "interp.isBinCall"); cc == nil {
		r.Errorf("R12.29: the callExpr case of cfg (post-order) was not found")
	} else {
		var def *ast.CaseClause
		ast.Inspect(cc, func(q ast.Node) bool {
			s, ok := q.(*ast.SwitchStmt)
			if !ok || s.Tag != nil {
				return true
			}
			disp := false
			var d *ast.CaseClause
			for _, st := range s.Body.List {
				c := st.(*ast.CaseClause)
				if c.List == nil {
					d = c
				}
				for _, e := range c.List {
					if len(callsIn(info, e, true, "interp.isBinCall")) > 0 {
						disp = true
					}
				}
			}
			if disp && d != nil {
				def = d
			}
			return true
		})
		if def == nil {
			r.Errorf("R12.29: the dispatch of the callExpr case of cfg (builtin / conversion / binary / default) was not found")
		} else {
			args := callsIn(info, def, true, "interp.typecheck.arguments")
			found := ""
			ast.Inspect(def, func(q ast.Node) bool {
				ifs, ok := q.(*ast.IfStmt)
				if !ok || len(args) == 0 || ifs.Pos() > args[0].Pos() {
					return true
				}
				if len(callsIn(info, ifs.Cond, true, "interp.isFunc", "interp.isFuncSrc")) > 0 && len(callsIn(info, ifs.Body, true, "interp.node.cfgErrorf")) > 0 {
					found = ic.pos(ifs.Pos())
				}
				return true
			})
			if len(args) == 0 {
				r.Errorf("R12.29: no call of typecheck.arguments in the default branch of the callExpr case")
			}
			r.Check(found != "", "R12.29", "cfg/case:callExpr/default/callee-is-a-function", ic.pos(def.Pos()), "the type of the callee is tested to be a function before the arguments are checked ("+found+")",
				"the branch of the callExpr case of cfg for interpreted callees never tests that the callee is a function: `a := 1; a()`, `defer a()` and `go s()` for a string are accepted and fail at run time in reflect (call of reflect.Value.Call on int Value), after the statements before them were executed (compiled Go: invalid operation: cannot call non-function a)")
		}
	}
	// ---- R12.34
	for _, k := range [][2]string{{"assignStmt", "interp.scope.isRedeclared"}, {"incDecStmt", "interp.typecheck.unaryExpr"}} {
		cc := findCase(k[0], k[1])
		if cc == nil {
			r.Errorf("R12.34: the %s case of cfg (post-order) was not found", k[0])
			continue
		}
		found := ""
		ast.Inspect(cc, func(q ast.Node) bool {
			ifs, ok := q.(*ast.IfStmt)
			if !ok || len(callsIn(info, ifs.Body, true, "interp.node.cfgErrorf")) == 0 {
				return true
			}
			if len(callsIn(info, ifs.Cond, true, "interp.isStringElem", "interp.isString")) > 0 {
				found = ic.pos(ifs.Pos())
			}
			return true
		})
		r.Check(found != "", "R12.34", "cfg/case:"+k[0]+"/string-element-not-a-destination", ic.pos(cc.Pos()), "an index expression on a string is rejected as destination ("+found+")",
			"the "+k[0]+" case of cfg never tests whether its destination is the element of a string: s[0] = 'x' (s[0]++ for the incDecStmt case) is accepted and fails at run time in reflect (reflect.Value.Set using unaddressable value), after the statements before it were executed (compiled Go: cannot assign to s[0] (neither addressable nor a map index expression))")
	}
	// ---- R12.30
	if cc := findCase("assignStmt", "interp.scope.isRedeclared"); cc == nil {
		r.Errorf("R12.30: the assignStmt/defineStmt case of cfg (post-order) was not found")
	} else {
		found := ""
		ast.Inspect(cc, func(q ast.Node) bool {
			ifs, ok := q.(*ast.IfStmt)
			if !ok || len(callsIn(info, ifs.Body, true, "interp.node.cfgErrorf")) == 0 {
				return true
			}
			// the result of numOut compared with a constant, in the condition or through the variable of the init statement
			var nv types.Object
			if as, isAs := ifs.Init.(*ast.AssignStmt); isAs && len(as.Lhs) == 1 && len(as.Rhs) == 1 && len(callsIn(info, as.Rhs[0], true, "interp.itype.numOut")) > 0 {
				if id := identOf(as.Lhs[0]); id != nil {
					nv = info.ObjectOf(id)
				}
			}
			cmp := false
			ast.Inspect(ifs.Cond, func(z ast.Node) bool {
				b, isB := z.(*ast.BinaryExpr)
				if !isB {
					return true
				}
				switch b.Op {
				case token.NEQ, token.GTR, token.GEQ, token.EQL, token.LSS, token.LEQ:
				default:
					return true
				}
				if _, isLit := unparen(b.Y).(*ast.BasicLit); !isLit {
					return true
				}
				if len(callsIn(info, b.X, true, "interp.itype.numOut")) > 0 {
					cmp = true
				}
				if id := identOf(b.X); id != nil && nv != nil && info.ObjectOf(id) == nv {
					cmp = true
				}
				return true
			})
			if !cmp {
				return true
			}
			for _, p := range enclosingPath(cc, ifs) {
				switch p.(type) {
				case *ast.RangeStmt, *ast.ForStmt:
					found = ic.pos(ifs.Pos())
				}
			}
			return true
		})
		r.Check(found != "", "R12.30", "cfg/case:assignStmt/single-valued-source", ic.pos(cc.Pos()), "the number of results of a call on the right is compared with a constant and decides an error ("+found+")",
			"the assignStmt/defineStmt case of cfg pairs each destination with a source without ever looking at the number of results of a source which is a call: `a := f()` with f returning two values is accepted and a silently receives the first one, `a := f()` with f returning nothing fails at run time in reflect.Set (compiled Go: assignment mismatch: 1 variable but f returns 2 values)")
	}
}

// c12R32: D121. const x int = 200; int8(x) was accepted and gave -56.
func c12R32(ic *IC, r *Report, rule string) {
	info := ic.Info
	cv := ic.fn(r, "typecheck.conversion")
	if cv == nil {
		return
	}
	n := 0
	for _, call := range callsIn(info, cv.Decl.Body, true, "interp.representableConst") {
		if len(call.Args) != 2 {
			continue
		}
		id := identOf(call.Args[0])
		if id == nil {
			continue
		}
		n++
		v := info.ObjectOf(id)
		fromValue := false
		ast.Inspect(cv.Decl.Body, func(q ast.Node) bool {
			as, ok := q.(*ast.AssignStmt)
			if !ok || len(as.Lhs) != len(as.Rhs) {
				return true
			}
			for i, l := range as.Lhs {
				if lid := identOf(l); lid != nil && info.ObjectOf(lid) == v && len(callsIn(info, as.Rhs[i], true, "interp.constantOf")) > 0 {
					fromValue = true
				}
			}
			return true
		})
		r.Check(fromValue, rule, fmt.Sprintf("typecheck.conversion/representability#%d/typed-constants-included", n), ic.pos(call.Pos()), "the constant tested is also obtained from a typed constant's value (constantOf)",
			"in typecheck.conversion the constant "+id.Name+" handed to representableConst is only ever the operand's value asserted to be a constant.Value: the value of a typed constant (const x int = 200) is a plain Go value, the assertion fails, the test is skipped and int8(x) is accepted and wraps to -56 (compiled Go: cannot convert x (constant 200 of type int) to type int8)")
	}
	if n == 0 {
		r.Errorf("%s: no call of representableConst on a variable found in typecheck.conversion", rule)
	}
}

// c12R33: D122. a[-1] with a constant index was accepted for slices and strings.
func c12R33(ic *IC, r *Report) {
	info := ic.Info
	ix := ic.fn(r, "typecheck.index")
	if ix == nil {
		return
	}
	var params []types.Object
	for _, f := range ix.Decl.Type.Params.List {
		for _, nm := range f.Names {
			if b, ok := info.TypeOf(nm).(*types.Basic); ok && b.Kind() == types.Int {
				params = append(params, info.ObjectOf(nm))
			}
		}
	}
	mentionsBound := func(e ast.Node) bool {
		m := false
		ast.Inspect(e, func(z ast.Node) bool {
			if id, ok := z.(*ast.Ident); ok {
				for _, p := range params {
					if info.ObjectOf(id) == p {
						m = true
					}
				}
			}
			return true
		})
		return m
	}
	found, blocked := "", ""
	for _, st := range ix.Decl.Body.List {
		ifs, ok := st.(*ast.IfStmt)
		if !ok {
			continue
		}
		if found == "" && mentionsBound(ifs.Cond) {
			// an earlier exit under a condition on the bound
			for _, s := range ifs.Body.List {
				if rs, ok := s.(*ast.ReturnStmt); ok && len(rs.Results) == 1 {
					if id := identOf(rs.Results[0]); id != nil && id.Name == "nil" {
						blocked = ic.pos(ifs.Pos())
					}
				}
			}
		}
		b, ok := unparen(ifs.Cond).(*ast.BinaryExpr)
		if !ok || len(callsIn(info, ifs.Body, true, "interp.node.cfgErrorf")) == 0 {
			continue
		}
		lit := types.ExprString(unparen(b.Y))
		if (b.Op == token.LSS && lit == "0") || (b.Op == token.LEQ && lit == "-1") {
			if !mentionsBound(b.X) && blocked == "" {
				found = ic.pos(ifs.Pos())
			}
		}
	}
	why := "no comparison of the constant index with zero reports an error"
	if blocked != "" && found == "" {
		why = "the function returns nil at " + blocked + " under a condition on the upper bound before any comparison of the index with zero"
	}
	r.Check(found != "", "R12.33", "typecheck.index/constant-index-not-negative", ic.pos(ix.Decl.Pos()), "a negative constant index is an error whatever the upper bound ("+found+")",
		"in typecheck.index "+why+": for a slice, a string or a make size there is no constant upper bound and a[-1], s[-1], a[-1:] and make([]int, -1) are accepted; they fail at run time in reflect, after the statements before them were executed (compiled Go: invalid argument: index -1 (constant of type int) must not be negative)")
}

func init() {
	ruleText["R12.37"] = "= R01.42: a variable redeclared by a multiple short declaration keeps its type, and the new value is checked against it"
	ruleText["R12.35"] = "only a variable, an indirection, a field or an element can be assigned: each case of cfg that stores into its operand - the assignStmt/defineStmt case for every destination of its pair loop, and the incDecStmt case - tests the form of the destination (isDestExpr) under a condition that reports an error; the two cases are siblings and must agree (the incDecStmt case also refuses a constant operand, as the assignment case does)"
}

// c12R35: D137. f() = 2 was accepted (and did nothing), c++ on a constant failed in reflect.
func c12R35(ic *IC, r *Report) {
	info := ic.Info
	cfgFn := ic.fn(r, "Interpreter.cfg")
	if cfgFn == nil {
		return
	}
	for _, k := range [][2]string{{"assignStmt", "interp.scope.isRedeclared"}, {"incDecStmt", "interp.typecheck.unaryExpr"}} {
		var cc *ast.CaseClause
		ast.Inspect(cfgFn.Decl.Body, func(q ast.Node) bool {
			c, ok := q.(*ast.CaseClause)
			if !ok {
				return true
			}
			for _, l := range kindLabels(ic, c) {
				if l == k[0] && len(callsIn(info, c, true, k[1])) > 0 {
					cc = c
				}
			}
			return true
		})
		if cc == nil {
			r.Errorf("R12.35: the %s case of cfg (post-order) was not found", k[0])
			continue
		}
		found := ""
		ast.Inspect(cc, func(q ast.Node) bool {
			ifs, ok := q.(*ast.IfStmt)
			if !ok || len(callsIn(info, ifs.Body, true, "interp.node.cfgErrorf")) == 0 {
				return true
			}
			if len(callsIn(info, ifs.Cond, true, "interp.isDestExpr")) > 0 {
				found = ic.pos(ifs.Pos())
			}
			return true
		})
		r.Check(found != "", "R12.35", "cfg/case:"+k[0]+"/destination-form-checked", ic.pos(cc.Pos()), "the form of the destination decides an error ("+found+")",
			"the "+k[0]+" case of cfg never tests the form of its destination: `f() = 2` is accepted and does nothing, `f()++` and `c++` on a constant fail at run time in reflect (compiled Go: cannot assign to f() (neither addressable nor a map index expression))")
	}
	if de := ic.F["isDestExpr"]; de == nil || de.Decl.Body == nil {
		r.Errorf("R12.35: isDestExpr not found")
	} else {
		// the forms accepted are those of the specification: no call, literal or operation
		bad := ""
		ast.Inspect(de.Decl.Body, func(q ast.Node) bool {
			cc, ok := q.(*ast.CaseClause)
			if !ok {
				return true
			}
			for _, e := range cc.List {
				if id := identOf(e); id != nil {
					switch id.Name {
					case "identExpr", "indexExpr", "selectorExpr", "starExpr", "parenExpr":
					default:
						if _, isConst := info.Uses[id].(*types.Const); isConst {
							bad = id.Name
						}
					}
				}
			}
			return true
		})
		r.Check(bad == "", "R12.35", "isDestExpr/forms", ic.pos(de.Decl.Pos()), "only identifiers, index, selector, indirection and parenthesised forms are destinations",
			"isDestExpr accepts the node kind "+bad+" as the destination of an assignment: the Go specification allows only addressable operands, map index expressions and the blank identifier")
	}
}

func init() {
	ruleText["R12.36"] = "the values forwarded by `return f()` are checked one by one: in the returnStmt case of cfg, next to the operand loop, the results of a single call operand that returns several values are compared (assignableTo) with the result types of the returning function inside a loop over their positions - the operand loop alone sees the first value only (= R01.33's sibling on the type side)"
}

// c12R36: D138. func f() (int, int) { return g() } with g() (int, string) failed at run time.
func c12R36(ic *IC, r *Report) {
	info := ic.Info
	cfgFn := ic.fn(r, "Interpreter.cfg")
	if cfgFn == nil {
		return
	}
	var cc *ast.CaseClause
	ast.Inspect(cfgFn.Decl.Body, func(q ast.Node) bool {
		c, ok := q.(*ast.CaseClause)
		if !ok {
			return true
		}
		for _, l := range kindLabels(ic, c) {
			if l == "returnStmt" && len(callsIn(info, c, true, "interp.mustReturnValue")) > 0 {
				cc = c
			}
		}
		return true
	})
	if cc == nil {
		r.Errorf("R12.36: the returnStmt case of cfg was not found")
		return
	}
	found := ""
	ast.Inspect(cc, func(q ast.Node) bool {
		loop, ok := q.(*ast.ForStmt)
		if !ok {
			return true
		}
		// a loop over positions in which a result of the callee (itype.out) is compared with a type
		if len(callsIn(info, loop.Body, true, "interp.itype.out")) == 0 {
			return true
		}
		ast.Inspect(loop.Body, func(z ast.Node) bool {
			ifs, ok := z.(*ast.IfStmt)
			if ok && len(callsIn(info, ifs.Cond, true, "interp.itype.assignableTo")) > 0 && len(callsIn(info, ifs.Body, true, "interp.node.cfgErrorf")) > 0 {
				found = ic.pos(ifs.Pos())
			}
			return true
		})
		return true
	})
	r.Check(found != "", "R12.36", "cfg/case:returnStmt/forwarded-values-checked-one-by-one", ic.pos(cc.Pos()), "each result of a forwarded call is compared with the result type at its position ("+found+")",
		"the returnStmt case of cfg compares only its operands with the result types: for `return g()` with g returning several values the second and later values are never checked, so func f() (int, int) { return g() } with g() (int, string) is accepted and fails at run time in reflect.Set (compiled Go: cannot use g() (value of type string) as int value in return statement)")
}

func init() {
	ruleText["R12.39"] = "= R03.25: no early acceptance of typecheck.binaryExpr bypasses the agreement of the operand types"
	ruleText["R12.38"] = "the operands of & are the addressable ones: in typecheck.addressExpr the case of index expressions accepts the element of an array or slice (isArray) and of the array a pointer points to, and does not accept the element of a map - no condition of that case that ends in 'found' calls isMap; an index expression on a map is answered with an error"
}

// c12R38: D145. p := &m["a"] was accepted (a pointer to a copy); &pa[1] for pa *[2]int was rejected.
func c12R38(ic *IC, r *Report) {
	info := ic.Info
	ae := ic.fn(r, "typecheck.addressExpr")
	if ae == nil {
		return
	}
	var cc *ast.CaseClause
	ast.Inspect(ae.Decl.Body, func(q ast.Node) bool {
		c, ok := q.(*ast.CaseClause)
		if !ok {
			return true
		}
		for _, e := range c.List {
			if id := identOf(e); id != nil && id.Name == "indexExpr" {
				cc = c
			}
		}
		return true
	})
	if cc == nil {
		r.Errorf("R12.38: the indexExpr case of typecheck.addressExpr was not found")
		return
	}
	accepts, rejects := "", false
	ast.Inspect(cc, func(q ast.Node) bool {
		ifs, ok := q.(*ast.IfStmt)
		if !ok || len(callsIn(info, ifs.Cond, true, "interp.isMap")) == 0 {
			return true
		}
		// what does the branch do: report an error, or go on as found
		if len(callsIn(info, ifs.Body, true, "interp.node.cfgErrorf")) > 0 {
			rejects = true
			return true
		}
		accepts = ic.pos(ifs.Pos())
		return true
	})
	r.Check(accepts == "" && rejects, "R12.38", "typecheck.addressExpr/case:indexExpr/map-element-not-addressable", ic.pos(cc.Pos()), "an index expression on a map is answered with an error",
		"typecheck.addressExpr accepts the address of an index expression whose operand is a map ("+accepts+"): p := &m[\"a\"] is accepted and p points to a copy of the element - writes through it are lost, and the program is not valid Go (cannot take address of m[\"a\"])")
}
