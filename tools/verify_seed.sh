#!/bin/bash
# verify_seed.sh <seed-dir> <placement-dir-relative-to-repo> <go-test-run-regex> [pkg]
# Confirms a seeded change in a scratch worktree of /repo: demo passes on the clean tree,
# the change applies and builds, the demo fails with it, the baseline suite still passes.
S=$1; PLACE=$2; RX=$3; PKG=${4:-./$PLACE}
export GOFLAGS=-mod=mod GOPROXY=off GOSUMDB=off GOTOOLCHAIN=local
W=$(mktemp -d /tmp/vs.XXXXXX); rmdir $W
git -C /repo worktree add -q --detach $W ${BASE:-HEAD} || exit 2
trap 'git -C /repo worktree remove --force $W; rm -rf $W' EXIT
cd $W
cp $S/*_test.go $PLACE/ 2>/dev/null
echo "== demo on clean tree (expect PASS)"
if go test -count=1 -run "$RX" $PKG > $W.clean.log 2>&1; then echo CLEAN=PASS; else echo CLEAN=FAIL; tail -15 $W.clean.log; fi
echo "== apply"
if ! git apply $S/patch.diff; then echo APPLY=FAIL; exit 1; fi
echo APPLY=OK
if go build ./... && go vet ./interp; then echo BUILD=OK; else echo BUILD=FAIL; fi
echo "== demo with the change (expect FAIL)"
if timeout 600 go test -count=1 -run "$RX" $PKG > $W.mut.log 2>&1; then echo MUTANT=PASS; else echo MUTANT=FAIL; grep -m5 -- "--- FAIL\|panic:\|FAIL" $W.mut.log; fi
for f in $S/*_test.go; do rm -f $PLACE/$(basename $f); done
echo "== baseline suite with the change"
if [ -n "$NOSUITE" ]; then echo "SUITE skipped (NOSUITE set)"; exit 0; fi
go test -mod=mod -json -vet=off -count=1 -timeout 25m ./... > $W.suite.json 2>/dev/null
python3 - $W.suite.json <<'PY'
import json,sys
b=json.load(open('/root/.vp/BASELINE.json')); stable=set(b['stable_pass']); passed=set()
for l in open(sys.argv[1]):
    try: d=json.loads(l)
    except Exception: continue
    if d.get('Action')=='pass' and d.get('Test'): passed.add(d['Package']+'::'+d['Test'])
m=sorted(stable-passed); print('SUITE missing=%d'%len(m)); [print('  ',x) for x in m[:10]]
PY
rm -f $W.*.log $W.suite.json
