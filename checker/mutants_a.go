package main

func init() {
	addMutants(
		// ---- C17
		mutant{Name: "drop-riscv64-from-knownArch", Prop: "C17", File: "interp/build.go", Old: "\t\"riscv64\":     true,\n", New: "", Rule: "R17.1", Key: "arch/riscv64"},
		mutant{Name: "skipFile-verdict-ignored", Prop: "C17", File: "interp/src.go", Old: "if skipFile(&interp.context, name, skipTest) {\n\t\t\tcontinue\n\t\t}", New: "if skipFile(&interp.context, name, skipTest) {\n\t\t\tname = file.Name()\n\t\t}", Rule: "R17.4", Key: "importSrc"},
		mutant{Name: "buildOk-only-error-checked", Prop: "C17", File: "interp/ast.go", Old: "; !ok || err != nil {", New: "; !ok && err != nil {", Rule: "R17.4", Key: "parse"},
		mutant{Name: "release-tag-strict", Prop: "C17", File: "interp/build.go", Old: "r = goMinorVersion(ctx) >= n", New: "r = goMinorVersion(ctx) > n", Rule: "R17.5", Key: "release-tag"},
		mutant{Name: "release-first-element", Prop: "C17", File: "interp/build.go", Old: "ctx.ReleaseTags[len(ctx.ReleaseTags)-1]", New: "ctx.ReleaseTags[0]", Rule: "R17.5", Key: "release-source"},
		mutant{Name: "goarch-tag-dropped", Prop: "C17", File: "interp/build.go", Old: "\tcase s == ctx.GOARCH:\n\t\tr = true\n", New: "", Rule: "R17.2", Key: "field/GOARCH"},
		mutant{Name: "benign-rename-tables", Prop: "C17", File: "interp/build.go", Old: "\tcase knownOs[x] && knownArch[y]:\n\t\t\treturn true\n", New: "\tcase knownArch[y] && knownOs[x]:\n\t\t\treturn true\n", Benign: true},

		// ---- C08
		mutant{Name: "select-cases-shared-again", Prop: "C08", File: "interp/run.go", Old: "\t\tcases := make([]reflect.SelectCase, nbClause+1)\n\t\tcopy(cases, dirs)\n", New: "\t\t_ = dirs\n", Rule: "R08.1", Key: "_select/captured:cases"},
		mutant{Name: "select-alias-write", Prop: "C08", File: "interp/run.go", Old: "\t\tcases := make([]reflect.SelectCase, nbClause+1)\n\t\tcopy(cases, dirs)\n", New: "\t\tcases := dirs\n", Rule: "R08.1", Key: "_select/captured:"},
		mutant{Name: "goroutine-shares-caller-frame", Prop: "C08", File: "interp/run.go", Old: "\t\t\tgo runCfg(def.child[3].start, nf, def, n)", New: "\t\t\tgo runCfg(def.child[3].start, f, def, n)", Rule: "R08.2", Key: "go runCfg"},
		mutant{Name: "missing-unlock-on-path", Prop: "C08", File: "interp/run.go", Old: "\t\tf.mutex.Lock()\n\t\tbf := value(f)\n\t\tdef, ok := bf.Interface().(*node)\n\t\tif ok {\n\t\t\tbf = def.rval\n\t\t}\n\t\tf.mutex.Unlock()", New: "\t\tf.mutex.Lock()\n\t\tbf := value(f)\n\t\tdef, ok := bf.Interface().(*node)\n\t\tif ok {\n\t\t\tbf = def.rval\n\t\t\tf.mutex.Unlock()\n\t\t}", Rule: "R08.3", Key: "call/f.mutex.Lock"},
		mutant{Name: "done-read-unlocked", Prop: "C08", File: "interp/run.go", Old: "\t\tf.mutex.RLock()\n\t\tdone := f.done\n\t\tf.mutex.RUnlock()\n\n\t\tchosen, v, ok := reflect.Select([]reflect.SelectCase{done, {Dir: reflect.SelectRecv, Chan: value(f)}})", New: "\t\tdone := f.done\n\n\t\tchosen, v, ok := reflect.Select([]reflect.SelectCase{done, {Dir: reflect.SelectRecv, Chan: value(f)}})", Rule: "R08.3", Key: "guarded/rangeChan"},
		mutant{Name: "go-bin-args-not-copied", Prop: "C08", File: "interp/run.go", Old: "in[i] = fixArg(getBinValue(getMapType, v, f))", New: "in[i] = getBinValue(getMapType, v, f)", Rule: "R08.2", Key: "callBin/go-args"},
		mutant{Name: "benign-local-counter", Prop: "C08", File: "interp/run.go", Old: "\t\tj, v, s := reflect.Select(cases)\n", New: "\t\tj, v, s := reflect.Select(cases)\n\t\ttries := 0\n\t\ttries++\n\t\t_ = tries\n", Benign: true},

		// ---- C09
		mutant{Name: "loop-gate-dropped", Prop: "C09", File: "interp/run.go", Old: "for exec := n.exec; exec != nil && f.runid() == n.interp.runid(); {", New: "for exec := n.exec; exec != nil; {", Rule: "R09.1", Key: "runCfg/loop"},
		mutant{Name: "debug-loop-gate-or", Prop: "C09", File: "interp/run.go", Old: "for m, exec := n, n.exec; f.runid() == n.interp.runid(); {", New: "for m, exec := n, n.exec; f.runid() == n.interp.runid() || m != nil; {", Rule: "R09.1", Key: "runCfg/loop"},
		mutant{Name: "goroutine-frame-fresh-id", Prop: "C09", File: "interp/run.go", Old: "nf := newFrame(f, len(def.types), f.runid())", New: "nf := newFrame(f, len(def.types), f.root.runid())", Rule: "R09.2", Key: "newFrame"},
		mutant{Name: "send-done-not-checked", Prop: "C09", File: "interp/run.go", Old: "chosen, _, _ := reflect.Select([]reflect.SelectCase{done, {Dir: reflect.SelectSend, Chan: ch, Send: data}})\n\t\tif chosen == 0 {\n\t\t\treturn nil\n\t\t}", New: "chosen, _, _ := reflect.Select([]reflect.SelectCase{done, {Dir: reflect.SelectSend, Chan: ch, Send: data}})\n\t\tif chosen == 1 {\n\t\t\treturn next\n\t\t}", Rule: "R09.3", Key: "send/Select"},
		mutant{Name: "rangechan-no-done", Prop: "C09", File: "interp/run.go", Old: "chosen, v, ok := reflect.Select([]reflect.SelectCase{done, {Dir: reflect.SelectRecv, Chan: value(f)}})\n\t\tif chosen == 0 {\n\t\t\treturn nil\n\t\t}\n\t\tif !ok {", New: "_, v, ok := reflect.Select([]reflect.SelectCase{{Dir: reflect.SelectRecv, Chan: value(f)}})\n\t\t_ = done\n\t\tif !ok {", Rule: "R09.3", Key: "rangeChan/Select"},
		mutant{Name: "select-done-index-off", Prop: "C09", File: "interp/run.go", Old: "\t\tif j == nbClause {\n\t\t\treturn nil\n\t\t}", New: "\t\tif j > nbClause {\n\t\t\treturn nil\n\t\t}", Rule: "R09.3", Key: "_select/Select"},
		mutant{Name: "watcher-no-stop", Prop: "C09", File: "interp/program.go", Old: "\tcase <-ctx.Done():\n\t\tinterp.stop()\n\t\treturn reflect.Value{}, ctx.Err()", New: "\tcase <-ctx.Done():\n\t\treturn reflect.Value{}, ctx.Err()", Rule: "R09.4", Key: "ExecuteWithContext"},
		mutant{Name: "stop-no-close", Prop: "C09", File: "interp/interp.go", Old: "\tatomic.AddUint64(&interp.id, 1)\n\tclose(interp.done)", New: "\tatomic.AddUint64(&interp.id, 1)", Rule: "R09.5", Key: "stop/closes-done"},
		mutant{Name: "clone-drops-done", Prop: "C09", File: "interp/interp.go", Old: "\t\tdone:      f.done,\n", New: "", Rule: "R09.2", Key: "clone/sets:done"},
		mutant{Name: "blocking-recv-when-cancellable", Prop: "C09", File: "interp/run.go", Old: "\tif n.interp.cancelChan {\n\t\t// Cancellable channel read\n\t\tn.exec = func(f *frame) bltn {\n\t\t\tch, result, status", New: "\tif !n.interp.cancelChan {\n\t\t// Cancellable channel read\n\t\tn.exec = func(f *frame) bltn {\n\t\t\tch, result, status", Rule: "R09.3", Key: "recv2/Recv"},
		mutant{Name: "benign-rename-chosen", Prop: "C09", File: "interp/run.go", Old: "chosen, _, _ := reflect.Select([]reflect.SelectCase{done, {Dir: reflect.SelectSend, Chan: ch, Send: data}})\n\t\tif chosen == 0 {", New: "which, _, _ := reflect.Select([]reflect.SelectCase{done, {Dir: reflect.SelectSend, Chan: ch, Send: data}})\n\t\tif 0 == which {", Benign: true},

		// ---- C06
		mutant{Name: "importSrc-recover-removed", Prop: "C06", File: "interp/src.go", Old: "\t\tif r := recover(); r != nil {", New: "\t\tif r := error(nil); r != nil {", Rule: "R06.1", Key: "entry/"},
		mutant{Name: "defer-appended-not-prepended", Prop: "C06", File: "interp/run.go", Old: "\t\t\t\tval[i+1] = fixArg(v(f))\n\t\t\t}\n\t\t\tf.deferred = append([][]reflect.Value{val}, f.deferred...)", New: "\t\t\t\tval[i+1] = fixArg(v(f))\n\t\t\t}\n\t\t\tf.deferred = append(f.deferred, val)", Rule: "R06.2", Key: "call/store"},
		mutant{Name: "defer-args-alias-slot", Prop: "C06", File: "interp/run.go", Old: "val[i+1] = fixArg(getBinValue(getMapType, v, f))", New: "val[i+1] = getBinValue(getMapType, v, f)", Rule: "R06.3", Key: "callBin/defer-record"},
		mutant{Name: "recover-reads-own-frame", Prop: "C06", File: "interp/run.go", Old: "\t\tif f.anc.recovered == nil {", New: "\t\tif f.recovered == nil {", Rule: "R06.4", Key: "_recover/caller-frame"},
		mutant{Name: "recover-does-not-clear", Prop: "C06", File: "interp/run.go", Old: "\t\tf.anc.recovered = nil\n", New: "", Rule: "R06.4", Key: "_recover/clears"},
		mutant{Name: "deferred-run-before-recover", Prop: "C06", File: "interp/run.go", Old: "\t\tf.recovered = recover()\n\t\tdeferred := f.deferred\n", New: "\t\tdeferred := f.deferred\n", More: [][2]string{{"\t\tf.mutex.Lock()\n\t\tif f.recovered != nil {", "\t\tf.mutex.Lock()\n\t\tf.recovered = recover()\n\t\tif f.recovered != nil {"}}, Rule: "R06.4", Key: "recover-before-deferred"},
		mutant{Name: "panic-value-dropped", Prop: "C06", File: "interp/program.go", Old: "err = Panic{Value: r, Callers: pc[:n], Stack: debug.Stack()}", New: "err = Panic{Callers: pc[:n], Stack: debug.Stack()}", Rule: "R06.5", Key: "Execute/converts"},
		mutant{Name: "benign-extract-helper", Prop: "C06", File: "interp/program.go", Old: "err = Panic{Value: r, Callers: pc[:n], Stack: debug.Stack()}", New: "p := Panic{Value: r, Callers: pc[:n], Stack: debug.Stack()}\n\t\t\terr = p", Benign: true},
	)
}

func init() {
	addMutants(
		// ---- C10
		mutant{Name: "execute-refresh-dropped", Prop: "C10", File: "interp/program.go", Old: "\tinterp.frame.setrunid(interp.runid())\n", New: "", Rule: "R10.1", Key: "Interpreter.Execute/refresh"},
		mutant{Name: "execute-refresh-after-first-run", Prop: "C10", File: "interp/program.go", Old: "\tinterp.frame.setrunid(interp.runid())\n\tinterp.frame.mutex.Lock()\n\tinterp.resizeFrame()\n\tinterp.frame.mutex.Unlock()\n\n\t// Execute node closures.\n\tinterp.run(p.root, nil)\n", New: "\tinterp.frame.mutex.Lock()\n\tinterp.resizeFrame()\n\tinterp.frame.mutex.Unlock()\n\n\t// Execute node closures.\n\tinterp.run(p.root, nil)\n\tinterp.frame.setrunid(interp.runid())\n", Rule: "R10.1", Key: "Interpreter.Execute/refresh"},
		mutant{Name: "importsrc-refresh-dropped", Prop: "C10", File: "interp/src.go", Old: "\tinterp.frame.setrunid(interp.runid())\n", New: "", Rule: "R10.1", Key: "Interpreter.importSrc/refresh"},

		// ---- C12
		mutant{Name: "execute-despite-compile-error", Prop: "C12", File: "interp/interp.go", Old: "\tprog, err := interp.compileSrc(src, name, inc)\n\tif err != nil {\n\t\treturn res, err\n\t}\n", New: "\tprog, err := interp.compileSrc(src, name, inc)\n\tif err != nil && prog == nil {\n\t\treturn res, err\n\t}\n", Rule: "R12.1", Key: "eval"},
		mutant{Name: "typecheck-error-dropped", Prop: "C12", File: "interp/cfg.go", Old: "\t\t\terr = check.index(n.child[1], l)\n", New: "\t\t\tcheck.index(n.child[1], l)\n", Rule: "R12.3", Key: "implicit-discard:typecheck.index"},
		mutant{Name: "typecheck-error-blanked", Prop: "C12", File: "interp/cfg.go", Old: "\t\t\terr = check.index(n.child[1], l)\n", New: "\t\t\t_ = check.index(n.child[1], l)\n", Rule: "R12.3", Key: "discard:typecheck.index"},
		mutant{Name: "rule-unwired", Prop: "C12", File: "interp/cfg.go", Old: "\t\t\t\terr = check.starExpr(n.child[0])\n", New: "", Rule: "R12.4", Key: "typecheck.starExpr/wired"},
	)
}

func init() {
	addMutants(
		mutant{Name: "run-frame-takes-current-id", Prop: "C09", File: "interp/run.go", Old: "f = newFrame(cf, len(n.types), cf.runid())", New: "f = newFrame(cf, len(n.types), interp.runid())", Rule: "R09.2", Key: "(*Interpreter).run/newFrame"},
	)
}

func init() {
	addMutants(
		mutant{Name: "stop-close-before-advance", Prop: "C09", File: "interp/interp.go", Old: "\tatomic.AddUint64(&interp.id, 1)\n\tclose(interp.done)", New: "\tclose(interp.done)\n\tatomic.AddUint64(&interp.id, 1)", Rule: "R09.5", Key: "stop/order"},
		mutant{Name: "benign-stop-local-done", Prop: "C09", File: "interp/interp.go", Old: "\tatomic.AddUint64(&interp.id, 1)\n\tclose(interp.done)", New: "\tatomic.AddUint64(&interp.id, 1)\n\tdone := interp.done\n\tclose(done)", Benign: true},
		mutant{Name: "use-adopts-caller-map", Prop: "C08", File: "interp/use.go", Old: "\t\t\tinterp.binPkg[importPath] = make(map[string]reflect.Value)\n", New: "\t\t\tinterp.binPkg[importPath] = v\n", Rule: "R08.4", Key: "Use/binPkg-store"},
	)
}

func init() {
	const aliasTable = "\nfunc matchOS(ctx *build.Context, goos string) bool {\n\treturn goos == ctx.GOOS || osAlias[goos] == ctx.GOOS\n}\n\nvar osAlias = map[string]string{\n\t\"android\": \"linux\",\n\t\"illumos\": \"solaris\",\n\t\"ios\":     \"darwin\",\n}\n\nvar knownOs = map[string]bool{"
	const aliasTableOK = "\nfunc matchOS(ctx *build.Context, goos string) bool {\n\treturn goos == ctx.GOOS || osAlias[ctx.GOOS] == goos\n}\n\nvar osAlias = map[string]string{\n\t\"android\": \"linux\",\n\t\"illumos\": \"solaris\",\n\t\"ios\":     \"darwin\",\n}\n\nvar knownOs = map[string]bool{"
	addMutants(
		mutant{Name: "os-alias-wrong-direction", Prop: "C17", File: "interp/build.go", Old: "\t\tcase x == ctx.GOOS:\n", New: "\t\tcase matchOS(ctx, x):\n",
			More: [][2]string{{"knownOs[x] && x != ctx.GOOS ||", "knownOs[x] && !matchOS(ctx, x) ||"}, {"\nvar knownOs = map[string]bool{", aliasTable}}, Rule: "R17.2", Key: "name-rule/implied/linux=>android"},
		mutant{Name: "benign-os-alias-right-direction", Prop: "C17", File: "interp/build.go", Old: "\t\tcase x == ctx.GOOS:\n", New: "\t\tcase matchOS(ctx, x):\n",
			More: [][2]string{{"knownOs[x] && x != ctx.GOOS ||", "knownOs[x] && !matchOS(ctx, x) ||"}, {"\nvar knownOs = map[string]bool{", aliasTableOK}}, Benign: true},
	)
}

func init() {
	addMutants(
		mutant{Name: "generic-instantiation-error-shadowed", Prop: "C12", File: "interp/cfg.go", Old: "\t\t\t\tvar g *node\n\t\t\t\tvar found bool\n\t\t\t\tg, found, err = genAST(sc, fun, lt)", New: "\t\t\t\tg, found, err := genAST(sc, fun, lt)", Rule: "R12.5", Key: "Interpreter.cfg/shadow:genAST"},
		mutant{Name: "typeassert-error-shadowed", Prop: "C12", File: "interp/cfg.go", Old: "\t\t\terr = check.typeAssertionExpr(c0, c1.typ)\n\t\t\tif err != nil {\n\t\t\t\tbreak\n\t\t\t}", New: "\t\t\tif err := check.typeAssertionExpr(c0, c1.typ); err != nil {\n\t\t\t\tbreak\n\t\t\t}", Rule: "R12.5", Key: "Interpreter.cfg/shadow:typecheck.typeAssertionExpr"},
		mutant{Name: "assign-error-break-leaves-switch-only", Prop: "C12", File: "interp/cfg.go", Old: "\t\t\t\terr = check.assignExpr(n, dest, src)\n\t\t\t\tif err != nil {\n\t\t\t\t\tbreak\n\t\t\t\t}\n\n\t\t\t\tif updateSym {", New: "\t\t\t\tswitch err = check.assignExpr(n, dest, src); {\n\t\t\t\tcase err != nil:\n\t\t\t\t\tbreak\n\t\t\t\tcase updateSym:", Rule: "R12.3", Key: "Interpreter.cfg/overwrite:typecheck.assignExpr=>typecheck.assignExpr"},
		mutant{Name: "line-reset-clears-function-breakpoints", Prop: "C19", File: "interp/debugger.go", Old: "\t\t\t\tn.setBreakOnLine(false)\n", New: "\t\t\t\tn.setBreakOnLine(false)\n\t\t\t\tn.setBreakOnCall(false)\n", Rule: "R19.7", Key: "SetBreakpoints/flag:breakOnCall"},
		mutant{Name: "for5-cond-check-dropped", Prop: "C12", File: "interp/cfg.go", Old: "\t\t\tcond, post, body := n.child[0], n.child[1], n.child[2]\n\t\t\tif !isBool(cond.typ) {\n\t\t\t\terr = cond.cfgErrorf(\"non-bool used as for condition\")\n\t\t\t}\n", New: "\t\t\tcond, post, body := n.child[0], n.child[1], n.child[2]\n", Rule: "R12.5", Key: "cfg/case:forStmt5/cond-is-bool"},
	)
}

func init() {
	addMutants(
		mutant{Name: "wrapper-id-hoisted", Prop: "C10", File: "interp/run.go", Old: "\treturn func(f *frame) reflect.Value {\n\t\tv := value(f)\n\t\tif !isDefer && v.Kind() == reflect.Func {", New: "\treturn func(f *frame) reflect.Value {\n\t\tid := f.runid()\n\t\tv := value(f)\n\t\tif !isDefer && v.Kind() == reflect.Func {",
			More: [][2]string{{"fr := newFrame(f, len(def.types), f.runid())", "fr := newFrame(f, len(def.types), id)"}}, Rule: "R10.2", Key: "genFunctionWrapper/makefunc-frame-id:captured-id-value:id"},
		mutant{Name: "refresh-moved-to-conditional-helper", Prop: "C10", File: "interp/program.go", Old: "\tinterp.frame.setrunid(interp.runid())\n", New: "",
			Rule: "R10.1", Key: "Interpreter.Execute/refresh"},
	)
}

func init() {
	addMutants(
		mutant{Name: "benign-refresh-in-unconditional-helper", Prop: "C10", File: "interp/program.go", Old: "\tinterp.frame.setrunid(interp.runid())\n\tinterp.frame.mutex.Lock()\n\tinterp.resizeFrame()", New: "\tinterp.frame.mutex.Lock()\n\tinterp.resizeFrame()",
			Also: [][3]string{{"interp/interp.go", "func (interp *Interpreter) resizeFrame() {\n", "func (interp *Interpreter) resizeFrame() {\n\tinterp.frame.setrunid(interp.runid())\n"}}, Benign: true},
		mutant{Name: "refresh-in-helper-after-early-return", Prop: "C10", File: "interp/program.go", Old: "\tinterp.frame.setrunid(interp.runid())\n\tinterp.frame.mutex.Lock()\n\tinterp.resizeFrame()", New: "\tinterp.frame.mutex.Lock()\n\tinterp.resizeFrame()",
			Also: [][3]string{{"interp/interp.go", "\tinterp.frame.data = data\n}", "\tinterp.frame.data = data\n\tinterp.frame.setrunid(interp.runid())\n}"}}, Rule: "R10.1", Key: "Interpreter.Execute/refresh"},
	)
}

func init() {
	addMutants(
		// ---- C13
		mutant{Name: "osexit-real-bound", Prop: "C13", File: "stdlib/go1_22_os.go", Old: "reflect.ValueOf(osExit)", New: "reflect.ValueOf(os.Exit)", Rule: "R13.2", Key: "os.Exit/replaced"},
		mutant{Name: "logfatal-replacement-exits", Prop: "C13", File: "stdlib/restricted.go", Old: "func logFatalf(f string, v ...interface{}) { log.Panicf(f, v...) }", New: "func logFatalf(f string, v ...interface{}) { log.Fatalf(f, v...) }", Rule: "R13.2", Key: "logFatalf/cannot-exit"},
		mutant{Name: "getenv-reads-host", Prop: "C13", File: "interp/use.go", Old: "getenv := func(key string) string { return interp.env[key] }", New: "getenv := func(key string) string {\n\t\t\t\tif v, ok := interp.env[key]; ok {\n\t\t\t\t\treturn v\n\t\t\t\t}\n\t\t\t\treturn os.Getenv(key)\n\t\t\t}", Rule: "R13.4", Key: "os.Getenv"},
		mutant{Name: "setenv-override-dropped", Prop: "C13", File: "interp/use.go", Old: "\t\t\tp[\"Setenv\"] = reflect.ValueOf(func(key, value string) error { interp.env[key] = value; return nil })\n", New: "", Rule: "R13.4", Key: "os.Setenv"},
		mutant{Name: "println-to-host-stdout", Prop: "C13", File: "interp/use.go", Old: "p[\"Println\"] = reflect.ValueOf(func(a ...interface{}) (n int, err error) { return fmt.Fprintln(stdout, a...) })", New: "p[\"Println\"] = reflect.ValueOf(func(a ...interface{}) (n int, err error) { return fmt.Fprintln(os.Stdout, a...) })", Rule: "R13.5", Key: "fmt.Println/stream"},
		mutant{Name: "fixstdlib-fatal-rebinds-fatal", Prop: "C13", File: "interp/use.go", Old: "p[\"Fatalf\"] = reflect.ValueOf(l.Panicf)", New: "p[\"Fatalf\"] = reflect.ValueOf(l.Fatalf)", Rule: "R13.2", Key: "fixStdlib/log.Fatalf"},
		mutant{Name: "logger-embedded", Prop: "C13", File: "stdlib/restricted.go", Old: "type logLogger struct {\n\tl *log.Logger\n}", New: "type logLogger struct {\n\t*log.Logger\n\tl *log.Logger\n}", More: [][2]string{{"return &logLogger{log.New(out, prefix, flag)}", "x := log.New(out, prefix, flag)\n\treturn &logLogger{x, x}"}}, Rule: "R13.2", Key: "logLogger/opaque"},
		mutant{Name: "env-seeded-from-host", Prop: "C13", File: "interp/interp.go", Old: "\t\t\t\ti.opt.env[a[0]] = \"\"\n", New: "\t\t\t\ti.opt.env[a[0]] = os.Getenv(a[0])\n", Rule: "R13.4", Key: "New/env-init"},
		mutant{Name: "cmd-unsafe-always-used", Prop: "C13", File: "cmd/yaegi/run.go", Old: "\tif useUnsafe {\n", New: "\tif useUnsafe || useSyscall {\n", Rule: "R13.1", Key: "cmd/run/Use:unsafe"},
		// ---- C14
		mutant{Name: "wrong-function-bound", Prop: "C14", File: "stdlib/go1_22_strings.go", Old: "\"TrimLeft\":       reflect.ValueOf(strings.TrimLeft),", New: "\"TrimLeft\":       reflect.ValueOf(strings.TrimRight),", Rule: "R14.1", Key: "strings/strings/TrimLeft"},
		mutant{Name: "var-bound-by-value", Prop: "C14", File: "stdlib/go1_22_io.go", Old: "\"EOF\":              reflect.ValueOf(&io.EOF).Elem(),", New: "\"EOF\":              reflect.ValueOf(io.EOF),", Rule: "R14.1", Key: "io/io/EOF"},
		mutant{Name: "const-literal-off-by-one", Prop: "C14", File: "stdlib/go1_22_io.go", Old: "\"SeekEnd\":          reflect.ValueOf(constant.MakeFromLiteral(\"2\", token.INT, 0)),", New: "\"SeekEnd\":          reflect.ValueOf(constant.MakeFromLiteral(\"1\", token.INT, 0)),", Rule: "R14.1", Key: "io/io/SeekEnd"},
		mutant{Name: "binding-dropped", Prop: "C14", File: "stdlib/go1_21_io.go", Old: "\t\t\"ReadFull\":         reflect.ValueOf(io.ReadFull),\n", New: "", Rule: "R14.3", Key: "io/io/missing:ReadFull"},
		mutant{Name: "wrapper-forwards-to-sibling", Prop: "C14", File: "stdlib/go1_22_io.go", Old: "func (W _io_ByteScanner) UnreadByte() error       { return W.WUnreadByte() }", New: "func (W _io_ByteScanner) UnreadByte() error       { _, err := W.WReadByte(); return err }", Rule: "R14.5", Key: "io/io/_ByteScanner"},
		mutant{Name: "wrapper-args-swapped", Prop: "C14", File: "stdlib/go1_22_sort.go", Old: "func (W _sort_Interface) Less(i int, j int) bool { return W.WLess(i, j) }", New: "func (W _sort_Interface) Less(i int, j int) bool { return W.WLess(j, i) }", Rule: "R14.5", Key: "sort/sort/_Interface"},
		mutant{Name: "header-selects-two-releases", Prop: "C14", File: "stdlib/go1_21_io.go", Old: "//go:build go1.21 && !go1.22", New: "//go:build go1.21", Rule: "R14.4", Key: "stdlib/go1_21_io.go/header"},
	)
}

func init() {
	addMutants(
		// ---- C02
		mutant{Name: "sub-uses-plus-for-uint-const-left", Prop: "C02", File: "interp/op.go", Old: "func sub(n *node) {", New: "func sub(n *node) {\n\t_ = 0", Benign: true},
		mutant{Name: "token-maps-to-wrong-action", Prop: "C02", File: "interp/ast.go", Old: "\t\t\tcase token.GEQ:\n\t\t\t\tact = aGreaterEqual", New: "\t\t\tcase token.GEQ:\n\t\t\t\tact = aGreater", Rule: "R02.1", Key: "binary/>="},
		mutant{Name: "assign-token-case-dropped", Prop: "C02", File: "interp/ast.go", Old: "\t\t\t\tcase token.AND_NOT_ASSIGN:\n\t\t\t\t\tact = aAndNotAssign\n", New: "", Rule: "R02.1", Key: "assign/&^="},
		mutant{Name: "builtin-table-swapped", Prop: "C02", File: "interp/run.go", Old: "\taShr:          shr,\n", New: "\taShr:          shl,\n", Rule: "R02.2", Key: "aShr/shl"},
		mutant{Name: "folder-wrong-token", Prop: "C02", File: "interp/op.go", Old: "constant.BinaryOp(constant.ToInt(vConstantValue(v0)), token.AND_NOT, constant.ToInt(vConstantValue(v1)))", New: "constant.BinaryOp(constant.ToInt(vConstantValue(v0)), token.AND, constant.ToInt(vConstantValue(v1)))", Rule: "R02.2", Key: "aAndNot/andNotConst"},
		mutant{Name: "neg-float-uses-int-accessor", Prop: "C02", File: "interp/run.go", Old: "\t\t\tdest(f).SetFloat(-value(f).Float())\n", New: "\t\t\tdest(f).SetFloat(float64(-value(f).Int()))\n", Rule: "R02.3", Key: "neg/kind-classes"},
		mutant{Name: "vUint-reads-uint-via-int", Prop: "C02", File: "interp/value.go", Old: "\t\ti = v.Uint()\n", New: "\t\ti = uint64(v.Int())\n", Rule: "R02.3", Key: "vUint/kind-classes"},
		// ---- C03
		mutant{Name: "signed-range-check-reverted", Prop: "C03", File: "interp/typecheck.go", Old: "\t\t\ti, ok := constant.Int64Val(x)\n\t\t\tif !ok {\n\t\t\t\treturn false\n\t\t\t}\n\t\t\t// A signed integer of n bits holds values in [-2^(n-1), 2^(n-1)-1].\n\t\t\ts := uint(bitlen[t.Kind()] - 1)\n\t\t\treturn i >= -1<<s && i <= 1<<s-1\n", New: "\t\t\tif _, ok := constant.Int64Val(x); !ok {\n\t\t\t\treturn false\n\t\t\t}\n", Rule: "R03.4", Key: "representableConst/signed-bound"},
		mutant{Name: "bitlen-int32-wrong", Prop: "C03", File: "interp/typecheck.go", Old: "\treflect.Int32:   32,\n", New: "\treflect.Int32:   64,\n", Rule: "R03.3", Key: "bitlen/Int32"},
		mutant{Name: "bitlen-uintptr-missing", Prop: "C03", File: "interp/typecheck.go", Old: "\treflect.Uintptr: bits.UintSize,\n", New: "", Rule: "R03.3", Key: "bitlen/Uintptr"},
		mutant{Name: "float32-const-via-float64", Prop: "C03", File: "interp/typecheck.go", Old: "\t\tf, _ := constant.Float32Val(constant.ToFloat(c))\n\t\tv = reflect.ValueOf(f)\n", New: "\t\tf, _ := constant.Float64Val(constant.ToFloat(c))\n\t\tv = reflect.ValueOf(float32(f))\n", Rule: "R03.2", Key: "typecheck.convertConst/constant-accessors"},
		mutant{Name: "iota-reset-only-in-gta", Prop: "C03", File: "interp/cfg.go", Old: "\t\t\t\t\tif childPos(n) == len(n.anc.child)-1 {\n\t\t\t\t\t\tsc.iota = 0\n\t\t\t\t\t} else {\n\t\t\t\t\t\tsc.iota++\n\t\t\t\t\t}\n", New: "\t\t\t\t\tsc.iota++\n", Rule: "R03.5", Key: "Interpreter.cfg/iota"},
		mutant{Name: "xorConst-folds-or", Prop: "C03", File: "interp/op.go", Old: "constant.BinaryOp(constant.ToInt(vConstantValue(v0)), token.XOR, constant.ToInt(vConstantValue(v1)))", New: "constant.BinaryOp(constant.ToInt(vConstantValue(v0)), token.OR, constant.ToInt(vConstantValue(v1)))", Rule: "R03.1", Key: "aXor/xorConst"},
	)
}

func init() {
	addMutants(
		// ---- C01
		mutant{Name: "multi-define-assigns-as-it-evaluates", Prop: "C01", File: "interp/run.go", Old: "\t\t\t\tt[i] = reflect.New(types[i]).Elem()\n\t\t\t\tt[i].Set(s(f))\n\t\t\t}\n\t\t\tfor i := range svalue {\n\t\t\t\tif n.child[i].ident == \"_\" {\n\t\t\t\t\tcontinue\n\t\t\t\t}\n\t\t\t\tdata := getFrame(f, level[i]).data\n\t\t\t\tj := index[i]\n\t\t\t\tdata[j] = reflect.New(data[j].Type()).Elem()\n\t\t\t\tdata[j].Set(t[i])\n\t\t\t}", New: "\t\t\t\tdata := getFrame(f, level[i]).data\n\t\t\t\tj := index[i]\n\t\t\t\tdata[j] = reflect.New(data[j].Type()).Elem()\n\t\t\t\tdata[j].Set(s(f))\n\t\t\t}\n\t\t\t_ = t", Rule: "R01.6", Key: "assign/multi-closure"},
		mutant{Name: "scope-not-popped-for-forStmt4", Prop: "C01", File: "interp/cfg.go", Old: "\t\t\tpost.tnext = body.start\n\t\t\tbody.tnext = post.start\n\t\t\tsc = sc.pop()\n\n\t\tcase forStmt5:", New: "\t\t\tpost.tnext = body.start\n\t\t\tbody.tnext = post.start\n\n\t\tcase forStmt5:", Rule: "R01.1", Key: "cfg/scope:forStmt4"},
		mutant{Name: "define-reuses-slot", Prop: "C01", File: "interp/run.go", Old: "\t\t\t\tdata := getFrame(f, l).data\n\t\t\t\tdata[ind] = reflect.New(data[ind].Type()).Elem()\n\t\t\t\tdata[ind].Set(s(f))", New: "\t\t\t\tdata := getFrame(f, l).data\n\t\t\t\tdata[ind].Set(s(f))", Rule: "R01.2", Key: "assign/define-closure"},
		mutant{Name: "loopvar-not-reallocated", Prop: "C01", File: "interp/run.go", Old: "\t\trv := f.data[vln.findex]\n\t\tnv := reflect.New(rv.Type()).Elem()\n\t\tnv.Set(rv)\n\t\tf.data[n.findex] = nv", New: "\t\tf.data[n.findex] = f.data[vln.findex]", Rule: "R01.3", Key: "loopVarVal/fresh-copy"},
		mutant{Name: "copynode-drops-ident", Prop: "C01", File: "interp/generic.go", Old: "\t\tident:  n.ident,\n", New: "", Rule: "R01.4", Key: "copyNode/field:ident"},
		// ---- C05
		mutant{Name: "log-print-key-dropped", Prop: "C05", File: "stdlib/maptypes.go", Old: "\tMapTypes[reflect.ValueOf(log.Printf)] = mt\n", New: "", Rule: "R05.1", Key: "log.Printf"},
		mutant{Name: "fatal-rekey-dropped", Prop: "C05", File: "interp/use.go", Old: "\t\tinterp.mapTypes[p[\"Fatalln\"]] = interp.mapTypes[reflect.ValueOf(log.Fatalln)]\n", New: "", Rule: "R05.1", Key: "MapTypes/log.Fatalln"},
		mutant{Name: "rekey-from-wrong-function", Prop: "C05", File: "interp/use.go", Old: "interp.mapTypes[p[\"Scan\"]] = interp.mapTypes[reflect.ValueOf(fmt.Scan)]", New: "interp.mapTypes[p[\"Scan\"]] = interp.mapTypes[reflect.ValueOf(fmt.Print)]", Rule: "R05.1", Key: "fixStdlib/rekey:fmt.Scan"},
		// ---- C11
		mutant{Name: "resize-drops-old-values", Prop: "C11", File: "interp/interp.go", Old: "\tdata := make([]reflect.Value, l)\n\tcopy(data, interp.frame.data)\n", New: "\tdata := make([]reflect.Value, l)\n", Rule: "R11.2", Key: "resizeFrame/keeps-old-values"},
		mutant{Name: "resize-reinitialises-all", Prop: "C11", File: "interp/interp.go", Old: "\tfor j, t := range interp.universe.types[b:] {\n\t\tdata[b+j] = reflect.New(t).Elem()\n\t}", New: "\tfor j, t := range interp.universe.types {\n\t\tdata[j] = reflect.New(t).Elem()\n\t}\n\t_ = b", Rule: "R11.2", Key: "resizeFrame/initialises-tail-only"},
		mutant{Name: "scope-recreated", Prop: "C11", File: "interp/scope.go", Old: "\tif _, ok := interp.scopes[pkgID]; !ok {\n\t\tinterp.scopes[pkgID] = sc.pushBloc()\n\t}", New: "\tinterp.scopes[pkgID] = sc.pushBloc()", Rule: "R11.3", Key: "initScopePkg/scopes-store"},
		mutant{Name: "eval-resets-srcpkg", Prop: "C11", File: "interp/program.go", Old: "\tif name != \"\" {\n\t\tinterp.name = name\n\t}", New: "\tif name != \"\" {\n\t\tinterp.name = name\n\t\tinterp.srcPkg = imports{}\n\t}", Rule: "R11.1", Key: "Interpreter.srcPkg/stored-by"},
		mutant{Name: "closure-shares-root-frame", Prop: "C11", File: "interp/run.go", Old: "\t\tfr := f.clone()\n\t\to := getFrame(f, l).data[i]", New: "\t\tfr := f\n\t\tif f != f.root {\n\t\t\tfr = f.clone()\n\t\t}\n\t\to := getFrame(f, l).data[i]", Rule: "R11.5", Key: "getFunc/closure-frame-is-a-clone"},
		// ---- C15
		mutant{Name: "globals-after-inits", Prop: "C15", File: "interp/program.go", Old: "\tinterp.run(n, nil)\n\n\tfor _, n := range p.init {\n\t\tinterp.run(n, interp.frame)\n\t}", New: "\tfor _, n := range p.init {\n\t\tinterp.run(n, interp.frame)\n\t}\n\tinterp.run(n, nil)", Rule: "R15.1", Key: "Interpreter.Execute/phases"},
		mutant{Name: "init-prepended", Prop: "C15", File: "interp/cfg.go", Old: "\t\t\t\tinitNodes = append(initNodes, n)", New: "\t\t\t\tinitNodes = append([]*node{n}, initNodes...)", Rule: "R15.2", Key: "cfg/start-list-store"},
		mutant{Name: "import-once-test-dropped", Prop: "C15", File: "interp/src.go", Old: "\tif interp.srcPkg[importPath] != nil {", New: "\tif interp.srcPkg[importPath] != nil && skipTest {", Rule: "R15.3", Key: "importSrc/import-once"},
		mutant{Name: "dependency-collector-ignores-functions", Prop: "C15", File: "interp/cfg.go", Old: "\t\t\tcase sym.kind == funcSym && sym.node != nil && sym.node.kind == funcDecl && !seen[sym.node]:\n\t\t\t\t// Dependencies also pass through the bodies of the referenced functions.\n\t\t\t\tseen[sym.node] = true\n\t\t\t\twalk(sym.node.child[3], true)\n", New: "\t\t\tcase len(seen) > 1<<30:\n", Rule: "R15.4", Key: "getVarDependencies/follows-functions"},
		// ---- C16
		mutant{Name: "cycle-mark-after-readdir", Prop: "C16", File: "interp/src.go", Old: "\tinterp.rdir[importPath] = true\n\n\tfiles, err := fs.ReadDir(interp.opt.filesystem, dir)\n\tif err != nil {\n\t\treturn \"\", err\n\t}\n", New: "\tfiles, err := fs.ReadDir(interp.opt.filesystem, dir)\n\tif err != nil {\n\t\treturn \"\", err\n\t}\n\tdefer func() { interp.rdir[importPath] = true }()\n", Rule: "R16.1", Key: "importSrc/cycle-mark"},
		mutant{Name: "gopath-before-vendor", Prop: "C16", File: "interp/src.go", Old: "\trPath := filepath.Join(root, \"vendor\")\n\tdir := filepath.Join(goPath, \"src\", rPath, importPath)\n\n\tif _, err := fs.Stat(interp.opt.filesystem, dir); err == nil {\n\t\treturn dir, rPath, nil // found!\n\t}\n\n\tdir = filepath.Join(goPath, \"src\", effectivePkg(root, importPath))\n\n\tif _, err := fs.Stat(interp.opt.filesystem, dir); err == nil {\n\t\treturn dir, root, nil // found!\n\t}\n", New: "\tdir := filepath.Join(goPath, \"src\", effectivePkg(root, importPath))\n\n\tif _, err := fs.Stat(interp.opt.filesystem, dir); err == nil {\n\t\treturn dir, root, nil // found!\n\t}\n\n\trPath := filepath.Join(root, \"vendor\")\n\tdir = filepath.Join(goPath, \"src\", rPath, importPath)\n\n\tif _, err := fs.Stat(interp.opt.filesystem, dir); err == nil {\n\t\treturn dir, rPath, nil // found!\n\t}\n", Rule: "R16.2", Key: "pkgDir/vendor-first"},
		mutant{Name: "readfile-from-disk", Prop: "C16", File: "interp/src.go", Old: "if buf, err = fs.ReadFile(interp.opt.filesystem, name); err != nil {", New: "if buf, err = os.ReadFile(name); err != nil {", Rule: "R16.3", Key: "Interpreter.importSrc/filesystem"},
		mutant{Name: "yaegi-tags-loop-breaks-on-known-tag", Prop: "C17", File: "interp/build.go", Old: "\t\t\t\tif !contains(ctx.BuildTags, tag) {\n\t\t\t\t\tctx.BuildTags = append(ctx.BuildTags, tag)\n\t\t\t\t}\n", New: "\t\t\t\tif contains(ctx.BuildTags, tag) {\n\t\t\t\t\tbreak\n\t\t\t\t}\n\t\t\t\tctx.BuildTags = append(ctx.BuildTags, tag)\n", Rule: "R17.6", Key: "setYaegiTags/tag-loop#1/complete"},
		mutant{Name: "comment-group-skipped-unless-it-starts-with-build", Prop: "C17", File: "interp/build.go", Old: "\t\t// in file, evaluate the AND of multiple line build constraints\n", New: "\t\tif !strings.HasPrefix(strings.TrimSpace(g.Text()), \"+build \") {\n\t\t\tcontinue\n\t\t}\n", Rule: "R17.6", Key: "Interpreter.buildOk/group-loop#1/no-text-based-skip"},
		mutant{Name: "benign-empty-comment-group-skipped", Prop: "C17", File: "interp/build.go", Old: "\t\t// in file, evaluate the AND of multiple line build constraints\n", New: "\t\tif strings.TrimSpace(g.Text()) == \"\" {\n\t\t\tcontinue\n\t\t}\n", Benign: true},
		mutant{Name: "binary-direct-store-under-compound-assign", Prop: "C02", File: "interp/cfg.go", Old: "\t\t\tcase n.anc.kind == assignStmt && n.anc.action == aAssign && n.anc.nleft == 1:\n", New: "\t\t\tcase n.anc.kind == assignStmt && n.anc.nleft == 1:\n", Rule: "R02.7", Key: "cfg/case:binaryExpr/direct-store:n<-dest#1"},
		mutant{Name: "call-direct-store-under-compound-assign", Prop: "C02", File: "interp/cfg.go", Old: "\t\t\t\tcase n.action != aAssign:\n", New: "\t\t\t\tcase n.action != aAssign && !isCall(src):\n", Rule: "R02.7", Key: "cfg/case:assignStmt/direct-store:src<-dest#1"},
		mutant{Name: "benign-direct-store-guard-reordered", Prop: "C02", File: "interp/cfg.go", Old: "\t\t\tcase n.anc.kind == assignStmt && n.anc.action == aAssign && n.anc.nleft == 1:\n", New: "\t\t\tcase n.anc.nleft == 1 && n.anc.action == aAssign && n.anc.kind == assignStmt:\n", Benign: true},
		mutant{Name: "wrapper-receiver-aliased-not-copied", Prop: "C05", File: "interp/run.go", Old: "\t\t\t\tcase sk == reflect.Ptr && dk != reflect.Ptr:\n\t\t\t\t\tdest.Set(src.Elem())\n", New: "\t\t\t\tcase sk == reflect.Ptr && dk != reflect.Ptr:\n\t\t\t\t\td[numRet] = src.Elem()\n", Rule: "R05.2", Key: "genFunctionWrapper/newFrame#1/slots-fresh"},
		mutant{Name: "callee-argument-slot-aliases-caller-value", Prop: "C08", File: "interp/run.go", Old: "\t\t\t\t\tdest[i].Set(val)\n\t\t\t\t}\n\t\t\t}\n\t\t}\n\n\t\t// Execute function body", New: "\t\t\t\t\tdest[i] = val\n\t\t\t\t}\n\t\t\t}\n\t\t}\n\n\t\t// Execute function body", Rule: "R08.2", Key: "call/newFrame#1/slots-fresh"},
		mutant{Name: "own-methods-recorded-before-promoted-ones", Prop: "C05", File: "interp/type.go", Old: "\t\t// Get all methods defined on this type.\n\t\tfor _, m := range typ.method {\n\t\t\tres[m.ident] = m.typ.TypeOf().String()\n\t\t}\n\t\treturn res", New: "\t\treturn res",
			More: [][2]string{{"\t\tseen[typ] = true\n\n\t\tswitch typ.cat {\n\t\tcase linkedT:\n\t\t\tfor k, v := range getMethods(typ.val) {", "\t\tseen[typ] = true\n\t\tfor _, m := range typ.method {\n\t\t\tres[m.ident] = m.typ.TypeOf().String()\n\t\t}\n\n\t\tswitch typ.cat {\n\t\tcase linkedT:\n\t\t\tfor k, v := range getMethods(typ.val) {"}}, Rule: "R05.3", Key: "itype.methods/own-methods-shadow-promoted"},
		mutant{Name: "map-literal-keys-not-dependencies", Prop: "C15", File: "interp/cfg.go", Old: "\t\t\tif n.anc.kind == selectorExpr && childPos(n) == 1 {\n\t\t\t\treturn false\n\t\t\t}\n\t\t\tsym := n.sym\n", New: "\t\t\tif n.anc.kind == selectorExpr && childPos(n) == 1 {\n\t\t\t\treturn false\n\t\t\t}\n\t\t\tif n.anc.kind == keyValueExpr && childPos(n) == 0 {\n\t\t\t\treturn false\n\t\t\t}\n\t\t\tsym := n.sym\n", Rule: "R15.5", Key: "getVarDependencies/skip:keyValueExpr"},
		mutant{Name: "signed-bound-by-bitlen-admits-full-width-negatives", Prop: "C03", File: "interp/typecheck.go", Old: "\t\t\ti, ok := constant.Int64Val(x)\n\t\t\tif !ok {\n\t\t\t\treturn false\n\t\t\t}\n\t\t\t// A signed integer of n bits holds values in [-2^(n-1), 2^(n-1)-1].\n\t\t\ts := uint(bitlen[t.Kind()] - 1)\n\t\t\treturn i >= -1<<s && i <= 1<<s-1\n", New: "\t\t\tn := bitlen[t.Kind()]\n\t\t\tif constant.Sign(x) < 0 {\n\t\t\t\treturn constant.BitLen(x) <= n\n\t\t\t}\n\t\t\treturn constant.BitLen(x) < n\n", Rule: "R03.4", Key: "representableConst/signed-no-full-width"},
		mutant{Name: "benign-signed-bound-by-bitlen-exact", Prop: "C03", File: "interp/typecheck.go", Old: "\t\t\ti, ok := constant.Int64Val(x)\n\t\t\tif !ok {\n\t\t\t\treturn false\n\t\t\t}\n\t\t\t// A signed integer of n bits holds values in [-2^(n-1), 2^(n-1)-1].\n\t\t\ts := uint(bitlen[t.Kind()] - 1)\n\t\t\treturn i >= -1<<s && i <= 1<<s-1\n", New: "\t\t\tn := bitlen[t.Kind()]\n\t\t\tif constant.Sign(x) < 0 {\n\t\t\t\treturn constant.BitLen(x) < n || constant.Compare(x, token.EQL, constant.Shift(constant.MakeInt64(-1), token.SHL, uint(n-1)))\n\t\t\t}\n\t\t\treturn constant.BitLen(x) < n\n", Benign: true},
		mutant{Name: "rune-literal-decoded-through-a-string", Prop: "C03", File: "interp/ast.go", Old: "\t\t\t\tv, _, _, _ := strconv.UnquoteChar(a.Value[1:len(a.Value)-1], '\\'')\n\t\t\t\tn.rval = reflect.ValueOf(v)\n", New: "\t\t\t\tif s, err := strconv.Unquote(a.Value); err == nil {\n\t\t\t\t\tn.rval = reflect.ValueOf([]rune(s)[0])\n\t\t\t\t}\n", Rule: "R03.6", Key: "ast/literal:CHAR"},
		mutant{Name: "untyped-promotion-overwrites-shared-type", Prop: "C03", File: "interp/typecheck.go", Old: "\t\t\tif nkind <= tkind {\n\t\t\t\tn.typ = typ\n\t\t\t}", New: "\t\t\tif nkind <= tkind && n.typ != typ {\n\t\t\t\t*n.typ = *typ\n\t\t\t\tn.typ.node = n\n\t\t\t}", Rule: "R03.7", Key: "typecheck.convertUntyped/itype-overwritten-in-place"},
		mutant{Name: "name-rule-last-element-os-not-checked", Prop: "C17", File: "interp/build.go", Old: "\t\tcase knownOs[y] && y != ctx.GOOS:\n\t\t\treturn true\n", New: "", Rule: "R17.7", Key: "skipFile/keep-verdict#3/last-element-decided"},
		mutant{Name: "name-rule-goos-prefix-keeps-other-os", Prop: "C17", File: "interp/build.go", Old: "\t\t\treturn knownOs[y] && y != ctx.GOOS\n", New: "\t\t\treturn false\n", Rule: "R17.7", Key: "skipFile/keep-verdict#2/last-element-decided"},
		mutant{Name: "name-rule-test-suffix-kept", Prop: "C17", File: "interp/build.go", Old: "\tp = strings.TrimSuffix(p, \"_test\")\n", New: "", Rule: "R17.7", Key: "skipFile/test-suffix-removed-before-split"},
		mutant{Name: "benign-name-rule-in-gobuild-shape", Prop: "C17", File: "interp/build.go", Old: "\t\tswitch x, y := a[last-1], a[last]; {\n\t\tcase x == ctx.GOOS:\n\t\t\tif knownArch[y] {\n\t\t\t\treturn y != ctx.GOARCH\n\t\t\t}\n\t\t\treturn knownOs[y] && y != ctx.GOOS\n\t\tcase knownOs[x] && knownArch[y]:\n\t\t\treturn true\n\t\tcase knownArch[y] && y != ctx.GOARCH:\n\t\t\treturn true\n\t\tcase knownOs[y] && y != ctx.GOOS:\n\t\t\treturn true\n\t\tdefault:\n\t\t\treturn false\n\t\t}\n", New: "\t\tif x, y := a[last-1], a[last]; knownOs[x] && knownArch[y] {\n\t\t\treturn x != ctx.GOOS || y != ctx.GOARCH\n\t\t}\n", Benign: true},
		mutant{Name: "cycle-test-and-mark-use-different-keys", Prop: "C16", File: "interp/src.go", Old: "\tif interp.rdir[importPath] {\n", New: "\tcycleKey := importPath\n\tif isPathRelative(importPath) {\n\t\tcycleKey = dir\n\t}\n\tif interp.rdir[cycleKey] {\n", Rule: "R16.1", Key: "importSrc/cycle-key"},
		mutant{Name: "previous-root-cuts-at-vendor-before-searching", Prop: "C16", File: "interp/src.go", Old: "\t// TODO(mpl): maybe it works for the special case main, but can't be bothered for now.\n", New: "\tfor i, e := range strings.Split(root, string(filepath.Separator)) {\n\t\tif e == vendor && i > 0 {\n\t\t\treturn filepath.Join(strings.Split(root, string(filepath.Separator))[:i]...), nil\n\t\t}\n\t}\n", Rule: "R16.2", Key: "previousRoot/closest-vendor-first"},
		mutant{Name: "unary-operand-of-return-writes-result-slot-unguarded", Prop: "C02", File: "interp/cfg.go", Old: "\t\t\tcase directReturn(n, sc.def):\n\t\t\t\tpos := childPos(n)\n", New: "\t\t\tcase n.anc.kind == returnStmt:\n\t\t\t\tpos := childPos(n)\n", Rule: "R02.8", Key: "cfg/case:unaryExpr/return-direct-store#1"},
		mutant{Name: "builtin-operand-of-return-always-in-first-result", Prop: "C02", File: "interp/cfg.go", Old: "\t\t\t\tcase directReturn(n, sc.def):\n\t\t\t\t\t// Store result directly to frame output location, to avoid a frame copy.\n\t\t\t\t\tn.findex = childPos(n)\n", New: "\t\t\t\tcase n.anc.kind == returnStmt:\n\t\t\t\t\t// Store result directly to frame output location, to avoid a frame copy.\n\t\t\t\t\tn.findex = 0\n", Rule: "R02.8", Key: "cfg/case:callExpr/return-direct-store#2/slot-index"},
		mutant{Name: "bin-call-of-return-writes-by-position-unguarded", Prop: "C02", File: "interp/run.go", Old: "\t\tcase n.anc.action == aReturn && directReturn(n, n.anc.val.(*node)):\n", New: "\t\tcase n.anc.action == aReturn:\n", Rule: "R02.8", Key: "callBin/slot-from-position"},
		mutant{Name: "return-sets-results-in-turn-with-named-results", Prop: "C01", File: "interp/run.go", Old: "\tif len(child) > 1 && !mustReturnValue(def.child[2]) {\n", New: "\tif len(child) > 3 && !mustReturnValue(def.child[2]) {\n", Rule: "R01.7", Key: "_return/closure#2/operands-before-results"},
		mutant{Name: "uintptr-missing-from-inc", Prop: "C02", File: "interp/op.go", Old: "\tcase reflect.Uint, reflect.Uint8, reflect.Uint16, reflect.Uint32, reflect.Uint64, reflect.Uintptr:\n\t\tv0 := genValueUint(c0)\n\t\tn.exec = func(f *frame) bltn {\n\t\t\tv, i := v0(f)\n\t\t\tv.SetUint(i + 1)", New: "\tcase reflect.Uint, reflect.Uint8, reflect.Uint16, reflect.Uint32, reflect.Uint64:\n\t\tv0 := genValueUint(c0)\n\t\tn.exec = func(f *frame) bltn {\n\t\t\tv, i := v0(f)\n\t\t\tv.SetUint(i + 1)", Rule: "R02.3", Key: "inc/kind-class-complete"},
		mutant{Name: "scan-continues-after-selecting-a-variable", Prop: "C15", File: "interp/cfg.go", Old: "\t\t\tif canInit {\n\t\t\t\tnext = i\n\t\t\t\tbreak\n\t\t\t}\n", New: "\t\t\tif canInit {\n\t\t\t\tnext = i\n\t\t\t\tvarNode.child = append(varNode.child, n)\n\t\t\t\tinited[n] = true\n\t\t\t}\n", Rule: "R15.6", Key: "genGlobalVarDecl/earliest-ready-first"},
		mutant{Name: "global-redefinition-reuses-slot", Prop: "C11", File: "interp/gta.go", Old: "sc.sym[dest.ident] = &symbol{kind: varSym, global: true, index: sc.add(typ), typ: typ, rval: val, node: n}", New: "sc.sym[dest.ident] = &symbol{kind: varSym, global: true, index: slotFor(sc, dest.ident, typ), typ: typ, rval: val, node: n}",
			More: [][2]string{{"func baseType(t *itype) *itype {", "func slotFor(sc *scope, ident string, typ *itype) int {\n\tif sym, ok := sc.sym[ident]; ok && sym.kind == varSym && sym.global {\n\t\treturn sym.index\n\t}\n\treturn sc.add(typ)\n}\n\nfunc baseType(t *itype) *itype {"}}, Rule: "R11.6", Key: "gta/global-var-symbol#1/fresh-slot"},
		mutant{Name: "function-redefinition-updates-symbol-in-place", Prop: "C11", File: "interp/gta.go", Old: "\t\t\t\tsc.sym[ident] = &symbol{kind: funcSym, typ: n.typ, node: n, index: -1}\n", New: "\t\t\t\tif sym, ok := sc.sym[ident]; ok && sym.kind == funcSym {\n\t\t\t\t\tsym.typ, sym.node = n.typ, n\n\t\t\t\t} else {\n\t\t\t\t\tsc.sym[ident] = &symbol{kind: funcSym, typ: n.typ, node: n, index: -1}\n\t\t\t\t}\n", Rule: "R11.6", Key: "gta/symbol-node-repointed"},
		mutant{Name: "readiness-waits-for-variables-of-earlier-evaluations", Prop: "C11", File: "interp/cfg.go", Old: "\t\t\t\tif current[d] && !inited[d] {\n", New: "\t\t\t\tif !inited[d] {\n", Rule: "R11.7", Key: "genGlobalVarDecl/readiness#1/batch-only"},
		mutant{Name: "multi-value-var-symbols-not-tracked", Prop: "C15", File: "interp/gta.go", Old: "\t\t\t\t\tsym.node = n\n", New: "\t\t\t\t\tsym.rval = sym.rval\n", Rule: "R15.7", Key: "gta/case:defineXStmt/var-symbol-tracked"},
		mutant{Name: "collector-demands-global-flag-again", Prop: "C15", File: "interp/cfg.go", Old: "\t\t\tcase sym.kind == varSym && sym.node != nil && sym.node != nod:\n", New: "\t\t\tcase sym.kind == varSym && sym.global && sym.node != nil && sym.node != nod:\n", Rule: "R15.7", Key: "gta/case:defineXStmt/var-symbol-tracked"},
		mutant{Name: "land-false-outcome-leaves-result-stale", Prop: "C01", File: "interp/run.go", Old: "\t\t\tif value0(f).Bool() && value1(f).Bool() {\n\t\t\t\tdest(f).SetBool(true)\n\t\t\t\treturn tnext\n\t\t\t}\n\t\t\tdest(f).SetBool(false)\n\t\t\treturn fnext\n", New: "\t\t\tif value0(f).Bool() && value1(f).Bool() {\n\t\t\t\tdest(f).SetBool(true)\n\t\t\t\treturn tnext\n\t\t\t}\n\t\t\treturn fnext\n", Rule: "R01.8", Key: "land/closure#1/result-stored-on-every-path"},
		mutant{Name: "map-index-miss-leaves-result-stale", Prop: "C01", File: "interp/run.go", Old: "\t\t\t\tif v := value0(f).MapIndex(value1(f)); v.IsValid() {\n\t\t\t\t\tdest(f).Set(v)\n\t\t\t\t} else {\n\t\t\t\t\tdest(f).Set(z)\n\t\t\t\t}\n", New: "\t\t\t\tif v := value0(f).MapIndex(value1(f)); v.IsValid() {\n\t\t\t\t\tdest(f).Set(v)\n\t\t\t\t}\n", Rule: "R01.8", Key: "getIndexMap/closure#4/result-stored-on-every-path"},
		mutant{Name: "map-index2-miss-leaves-value-stale", Prop: "C01", File: "interp/run.go", Old: "\t\t\t\tv := value0(f).MapIndex(value1(f))\n\t\t\t\tif v.IsValid() {\n\t\t\t\t\tdest(f).Set(v)\n\t\t\t\t} else {\n\t\t\t\t\tdest(f).Set(z)\n\t\t\t\t}\n\t\t\t\tif doStatus {", New: "\t\t\t\tv := value0(f).MapIndex(value1(f))\n\t\t\t\tif v.IsValid() {\n\t\t\t\t\tdest(f).Set(v)\n\t\t\t\t}\n\t\t\t\tif doStatus {", Rule: "R01.8", Key: "getIndexMap2/closure#4/result-stored-on-every-path"},
		mutant{Name: "range-blank-value-stored-at-slot-zero", Prop: "C01", File: "interp/run.go", Old: "\t\t\t\tif i >= a.Len() {\n\t\t\t\t\treturn fnext\n\t\t\t\t}\n\t\t\t\tif doValue {\n\t\t\t\t\tf.data[index1].Set(a.Index(i))\n\t\t\t\t}\n", New: "\t\t\t\tif i >= a.Len() {\n\t\t\t\t\treturn fnext\n\t\t\t\t}\n\t\t\t\tf.data[index1].Set(a.Index(i))\n", Rule: "R01.10", Key: "_range/blank-value-not-stored"},
		mutant{Name: "range-string-key-only-uses-rune-index", Prop: "C01", File: "interp/run.go", Old: "\t\t\t\tpos := a.Slice(0, i).Convert(stringType).Len()\n\t\t\t\tf.data[index0].SetInt(int64(pos))\n\t\t\t\treturn tnext\n", New: "\t\t\t\tf.data[index0].SetInt(int64(i))\n\t\t\t\t_ = stringType\n\t\t\t\treturn tnext\n", Rule: "R01.9", Key: "_range/string-variant#2/byte-offsets"},
		mutant{Name: "loop-variable-idiom-ignores-the-source", Prop: "C01", File: "interp/cfg.go", Old: "if fi != nil && dest.ident == fi.ident && src.kind == identExpr && src.ident == dest.ident {", New: "if fi != nil && dest.ident == fi.ident {", Rule: "R01.11", Key: "cfg/loop-variable-idiom#1/source-is-the-variable"},
		mutant{Name: "multi-value-declaration-not-retried", Prop: "C15", File: "interp/gta.go", Old: "\t\t\tif err2 := compDefineX(sc, n); err2 != nil {\n", New: "\t\t\tif err = compDefineX(sc, n); err != nil {\n\t\t\t\treturn false\n\t\t\t}\n\t\t\tif err2 := error(nil); err2 != nil {\n", Rule: "R15.8", Key: "gta/case:defineXStmt/unresolved-is-retried"},
		mutant{Name: "option-terms-cut-once-not-iterated", Prop: "C17", File: "interp/build.go", Old: "\tfor _, t := range strings.Split(tag, \",\") {\n\t\tif !buildTagOk(ctx, t) {\n\t\t\treturn false\n\t\t}\n\t}\n\treturn true\n", New: "\tt, rest, more := strings.Cut(tag, \",\")\n\tif !buildTagOk(ctx, t) {\n\t\treturn false\n\t}\n\treturn !more || buildTagOk(ctx, rest)\n", Rule: "R17.6", Key: "constraint-levels/,"},
		mutant{Name: "anonymous-eval-resets-the-source-name", Prop: "C11", File: "interp/program.go", Old: "\tif name != \"\" {\n\t\tinterp.name = name\n\t}\n\tif interp.name == \"\" {\n\t\tinterp.name = DefaultSourceName\n\t}\n", New: "\tif name == \"\" {\n\t\tname = DefaultSourceName\n\t}\n\tinterp.name = name\n", Rule: "R11.8", Key: "Interpreter.compileSrc/source-name-store#1/guarded"},
		mutant{Name: "multi-value-define-symbols-flagged-global", Prop: "C11", File: "interp/cfg.go", Old: "\t\t\tsc.sym[id] = &symbol{index: index, kind: varSym, typ: t}\n", New: "\t\t\tsc.sym[id] = &symbol{index: index, kind: varSym, global: sc.global, typ: t, node: n}\n", Rule: "R11.9", Key: "compDefineX/var-symbols-not-global"},
		mutant{Name: "gta-flags-multi-value-variables-global", Prop: "C11", File: "interp/gta.go", Old: "\t\t\t\t\tsym.node = n\n", New: "\t\t\t\t\tsym.global = true\n\t\t\t\t\tsym.node = n\n", Rule: "R11.9", Key: "compDefineX/var-symbols-not-global"},
		mutant{Name: "remainder-accepted-on-floats", Prop: "C12", File: "interp/typecheck.go", Old: "\taRem: isInt,\n", New: "\taRem: isNumber,\n", Rule: "R12.6", Key: "binaryOpPredicates/aRem"},
		mutant{Name: "subtraction-accepted-on-strings", Prop: "C12", File: "interp/typecheck.go", Old: "\taSub: isNumber,\n", New: "\taSub: func(typ reflect.Type) bool { return isNumber(typ) || isString(typ) },\n", Rule: "R12.6", Key: "binaryOpPredicates/aSub"},
		mutant{Name: "isInt-forgets-uint8", Prop: "C12", File: "interp/type.go", Old: "\tcase reflect.Int, reflect.Int8, reflect.Int16, reflect.Int32, reflect.Int64, reflect.Uint, reflect.Uint8, reflect.Uint16, reflect.Uint32, reflect.Uint64, reflect.Uintptr:\n\t\treturn true\n\t}\n\treturn false\n}\n\nfunc isUint(", New: "\tcase reflect.Int, reflect.Int8, reflect.Int16, reflect.Int32, reflect.Int64, reflect.Uint, reflect.Uint16, reflect.Uint32, reflect.Uint64, reflect.Uintptr:\n\t\treturn true\n\t}\n\treturn false\n}\n\nfunc isUint(", Rule: "R12.6", Key: "predicate/isInt"},
		mutant{Name: "benign-add-predicate-reordered", Prop: "C12", File: "interp/typecheck.go", Old: "\taAdd: func(typ reflect.Type) bool { return isNumber(typ) || isString(typ) },\n", New: "\taAdd: func(typ reflect.Type) bool { return isString(typ) || isNumber(typ) },\n", Benign: true},
		mutant{Name: "ordering-accepted-on-complex", Prop: "C12", File: "interp/type.go", Old: "\treturn isInt(typ) || isFloat(typ) || isString(typ)\n", New: "\treturn isNumber(typ) || isString(typ)\n", Rule: "R12.6", Key: "predicate/itype.ordered"},
		mutant{Name: "ordering-needs-one-ordered-operand-only", Prop: "C12", File: "interp/typecheck.go", Old: "\t\tok = t0.ordered() && t1.ordered()\n", New: "\t\tok = t0.ordered() || t1.ordered()\n", Rule: "R12.6", Key: "comparison/ordering-operators-need-ordered-operands"},
		mutant{Name: "branch-on-bool-value-inverted", Prop: "C01", File: "interp/run.go", Old: "\t\tif value(f).Bool() {\n\t\t\treturn tnext\n\t\t}\n\t\treturn fnext\n", New: "\t\tif value(f).Bool() {\n\t\t\treturn fnext\n\t\t}\n\t\treturn tnext\n", Rule: "R01.12", Key: "branch/branch-polarity"},
		mutant{Name: "callbin-branch-result-inverted", Prop: "C01", File: "interp/run.go", Old: "\t\t\tif b {\n\t\t\t\treturn tnext\n\t\t\t}\n\t\t\treturn fnext\n", New: "\t\t\tif !b {\n\t\t\t\treturn tnext\n\t\t\t}\n\t\t\treturn fnext\n", Rule: "R01.12", Key: "callBin/branch-polarity"},
		mutant{Name: "benign-branch-written-negatively", Prop: "C01", File: "interp/run.go", Old: "\t\tif value(f).Bool() {\n\t\t\treturn tnext\n\t\t}\n\t\treturn fnext\n", New: "\t\tif !value(f).Bool() {\n\t\t\treturn fnext\n\t\t}\n\t\treturn tnext\n", Benign: true},
		mutant{Name: "named-types-assignable-de-morgan-slip", Prop: "C12", File: "interp/type.go", Old: "\tif t.cat == linkedT && o.cat == linkedT && (t.underlying().id() != o.underlying().id() || !typeDefined(t, o)) {\n\t\treturn false\n\t}\n", New: "\tif t.cat == linkedT && o.cat == linkedT {\n\t\tif t.underlying().id() != o.underlying().id() && !typeDefined(t, o) {\n\t\t\treturn false\n\t\t}\n\t}\n", Rule: "R12.7", Key: "assignableTo/named-types/not-defined-from-each-other"},
		mutant{Name: "named-types-assignable-when-same-underlying", Prop: "C12", File: "interp/type.go", Old: "\tif t.cat == linkedT && o.cat == linkedT && (t.underlying().id() != o.underlying().id() || !typeDefined(t, o)) {\n\t\treturn false\n\t}\n", New: "\tif t.cat == linkedT && o.cat == linkedT && t.underlying().id() != o.underlying().id() {\n\t\treturn false\n\t}\n", Rule: "R12.7", Key: "assignableTo/named-types/not-defined-from-each-other"},
		mutant{Name: "benign-named-types-rule-as-nested-ifs", Prop: "C12", File: "interp/type.go", Old: "\tif t.cat == linkedT && o.cat == linkedT && (t.underlying().id() != o.underlying().id() || !typeDefined(t, o)) {\n\t\treturn false\n\t}\n", New: "\tif t.cat == linkedT && o.cat == linkedT {\n\t\tif t.underlying().id() != o.underlying().id() {\n\t\t\treturn false\n\t\t}\n\t\tif !typeDefined(t, o) {\n\t\t\treturn false\n\t\t}\n\t}\n", Benign: true},
		mutant{Name: "array-deref-looks-through-pointers-to-slices", Prop: "C12", File: "interp/typecheck.go", Old: "\tif typ.cat == valueT && typ.TypeOf().Kind() == reflect.Ptr {\n\t\tt := typ.TypeOf()\n\t\tif t.Elem().Kind() == reflect.Array {\n\t\t\treturn valueTOf(t.Elem())\n\t\t}\n\t\treturn typ\n\t}\n\n\tif typ.cat == ptrT && typ.val.cat == arrayT {\n\t\treturn typ.val\n\t}\n\treturn typ\n", New: "\tif isPtr(typ) && isArray(typ.elem()) {\n\t\treturn typ.elem()\n\t}\n\treturn typ\n", Rule: "R12.8", Key: "arrayDeref/only-pointers-to-arrays"},
		mutant{Name: "cap-accepted-on-maps", Prop: "C12", File: "interp/typecheck.go", Old: "\t\tcase reflect.Array, reflect.Slice, reflect.Chan:\n\t\t\tok = true\n\t\tcase reflect.String, reflect.Map:\n", New: "\t\tcase reflect.Array, reflect.Slice, reflect.Chan, reflect.Map:\n\t\t\tok = true\n\t\tcase reflect.String:\n", Rule: "R12.8", Key: "builtin/len-cap/argument-kinds"},
		mutant{Name: "benign-array-deref-cases-swapped", Prop: "C12", File: "interp/typecheck.go", Old: "\tif typ.cat == ptrT && typ.val.cat == arrayT {\n\t\treturn typ.val\n\t}\n\treturn typ\n", New: "\tif typ.cat != ptrT || typ.val.cat != arrayT {\n\t\treturn typ\n\t}\n\treturn typ.val\n", Benign: true},
		mutant{Name: "wrapper-selected-on-declared-methods-only", Prop: "C05", File: "interp/use.go", Old: "\tlm := n.typ.methods()\n", New: "",
			More: [][2]string{{"\t\t\tif _, ok := lm[rt.Field(i).Name[1:]]; !ok {\n", "\t\t\tif n.typ.getMethod(rt.Field(i).Name[1:]) == nil {\n"}}, Rule: "R05.5", Key: "getWrapper/selection-on-method-set"},
		mutant{Name: "relative-import-normalises-a-copy-of-the-root", Prop: "C16", File: "interp/src.go", Old: "\t\tif rPath == mainID {\n\t\t\trPath = \".\"\n\t\t}\n\t\tdir = filepath.Join(filepath.Dir(interp.name), rPath, importPath)\n", New: "\t\tbase := rPath\n\t\tif base == mainID {\n\t\t\tbase = \".\"\n\t\t}\n\t\tdir = filepath.Join(filepath.Dir(interp.name), base, importPath)\n", Rule: "R16.1", Key: "importSrc/relative-branch/root-handed-on"},
		mutant{Name: "name-rule-splits-the-whole-name", Prop: "C17", File: "interp/build.go", Old: "\ta := strings.Split(p[i+1:], \"_\")\n\tlast := len(a) - 1\n\tif last-1 >= 0 {\n", New: "\ta := strings.Split(p, \"_\")\n\tlast := len(a) - 1\n\tif last-1 >= 1 {\n", Rule: "R17.7", Key: "skipFile/prefix-is-not-a-constraint"},
		mutant{Name: "negated-comparison-folded-into-its-operand", Prop: "C02", File: "interp/cfg.go", Old: "\t\t\tcase n.rval.IsValid():\n\t\t\t\tn.gen = nop\n\t\t\t\tn.findex = notInFrame\n\t\t\tcase n.anc.kind == assignStmt && n.anc.action == aAssign && n.anc.nright == 1:\n", New: "\t\t\tcase n.rval.IsValid():\n\t\t\t\tn.gen = nop\n\t\t\t\tn.findex = notInFrame\n\t\t\tcase n.action == aNot && n.child[0].action == aLower:\n\t\t\t\tn.child[0].action = aGreaterEqual\n\t\t\t\tn.child[0].gen = greaterEqual\n\t\t\t\tn.gen = nop\n\t\t\t\tn.findex = n.child[0].findex\n\t\t\tcase n.anc.kind == assignStmt && n.anc.action == aAssign && n.anc.nright == 1:\n", Rule: "R02.9", Key: "Interpreter.cfg/operator-action-rewritten:aGreaterEqual"},
		// ---- C18
		mutant{Name: "var-bound-by-value-in-generator", Prop: "C18", File: "extract/extract.go", Old: "\t\t\tval[name] = Val{pname, true}", New: "\t\t\tval[name] = Val{pname, false}", Rule: "R18.2", Key: "genContent/addr-only-for-vars"},
		mutant{Name: "template-forwards-wrong-field", Prop: "C18", File: "extract/extract.go", Old: "\t\t\t{{- $m.Ret}} W.W{{$m.Name}}{{$m.Arg -}}", New: "\t\t\t{{- $m.Ret}} W.{{$m.Name}}{{$m.Arg -}}", Rule: "R18.3", Key: "model/wrapper-method"},
		mutant{Name: "generic-func-not-skipped", Prop: "C18", File: "extract/extract.go", Old: "\t\t\tif s := o.Type().(*types.Signature); s.TypeParams().Len() > 0 || s.RecvTypeParams().Len() > 0 {\n\t\t\t\tcontinue\n\t\t\t}\n", New: "", Rule: "R18.2", Key: "genContent/generic-func-skipped"},
		mutant{Name: "string-const-printed-truncated", Prop: "C18", File: "extract/extract.go", Old: "\t\ttok = \"STRING\"\n\t\tstr = val.ExactString()\n", New: "\t\ttok = \"STRING\"\n\t\tstr = val.String()\n", Rule: "R18.5", Key: "fixConst/String"},
		mutant{Name: "benign-int-const-printed-with-String", Prop: "C18", File: "extract/extract.go", Old: "\t\ttok = \"INT\"\n\t\tstr = val.ExactString()\n", New: "\t\ttok = \"INT\"\n\t\tstr = val.String()\n", Benign: true},
		mutant{Name: "benign-string-const-requoted", Prop: "C18", File: "extract/extract.go", Old: "\t\ttok = \"STRING\"\n\t\tstr = val.ExactString()\n", New: "\t\ttok = \"STRING\"\n\t\tstr = strconv.Quote(constant.StringVal(val))\n", Benign: true},
		mutant{Name: "variadic-mark-overwritten-by-default-name", Prop: "C18", File: "extract/extract.go", Old: "\t\t\t\t\t\t\targs[j] += \"...\"\n", New: "\t\t\t\t\t\t\targs[j] += \"...\"\n\t\t\t\t\t\t\tif v.Name() == \"\" {\n\t\t\t\t\t\t\t\targs[j] = fmt.Sprintf(\"a%d\", j)\n\t\t\t\t\t\t\t}\n", Rule: "R18.6", Key: "genContent/variadic-mark#1/last-write"},
		// ---- C19
		mutant{Name: "debugger-writes-frame-data", Prop: "C19", File: "interp/debugger.go", Old: "\tf.debug.g.fDepth--\n", New: "\tf.debug.g.fDepth--\n\tif len(f.data) > 0 {\n\t\tf.data[0] = reflect.Value{}\n\t}\n", Rule: "R19.1", Key: "(*Debugger).exitCall/stores"},
		mutant{Name: "step-over-skips-breakpoints", Prop: "C19", File: "interp/debugger.go", Old: "\tcase n.shouldBreak():\n\t\te.reason = DebugBreak\n\n\tcase g.mode == debugRun:\n\t\treturn false\n", New: "\tcase g.mode == debugRun:\n\t\tif !n.shouldBreak() {\n\t\t\treturn false\n\t\t}\n\t\te.reason = DebugBreak\n", Rule: "R19.3", Key: "Debugger.exec/breakpoint-before-shortcuts"},
		mutant{Name: "terminate-event-not-deferred", Prop: "C19", File: "interp/debugger.go", Old: "\t\tdefer events(&DebugEvent{reason: DebugTerminate})\n", New: "", Rule: "R19.4", Key: "Debug/terminate-event"},
		mutant{Name: "debug-loop-runs-two-ops", Prop: "C19", File: "interp/run.go", Old: "\t\texec = exec(f)\n\t\tif exec == nil {\n\t\t\tbreak\n\t\t}\n", New: "\t\texec = exec(f)\n\t\tif exec == nil {\n\t\t\tbreak\n\t\t}\n\t\tif m == nil {\n\t\t\texec = exec(f)\n\t\t}\n", Rule: "R19.2", Key: "runCfg/loop#2/step"},
	)
}

func init() {
	addMutants(
		mutant{Name: "deferred-calls-under-frame-lock", Prop: "C08", File: "interp/run.go", Old: "\t\tdeferred := f.deferred\n\t\tf.mutex.Unlock()\n", New: "\t\tdeferred := f.deferred\n", More: [][2]string{{"\t\tfor _, val := range deferred {\n\t\t\tf.callDeferred(val)\n\t\t}\n\n\t\tf.mutex.Lock()\n", "\t\tfor _, val := range deferred {\n\t\t\tval[0].Call(val[1:])\n\t\t}\n\n"}}, Rule: "R08.3", Key: "reentrant"},
		mutant{Name: "deferred-calls-not-isolated", Prop: "C06", File: "interp/run.go", Old: "\t\t\tf.callDeferred(val)\n", New: "\t\t\tval[0].Call(val[1:])\n", Rule: "R06.7", Key: "runCfg/deferred-calls-isolated"},
		mutant{Name: "benign-range-over-field", Prop: "C06", File: "interp/run.go", Old: "\t\tfor _, val := range deferred {\n\t\t\tf.callDeferred(val)", New: "\t\tfor _, val := range f.deferred {\n\t\t\tf.callDeferred(val)", More: [][2]string{{"\t\tdeferred := f.deferred\n", ""}}, Benign: true},
	)
}

func init() {
	addMutants(
		mutant{Name: "int-width-literal-64", Prop: "C03", File: "interp/typecheck.go", Old: "\treflect.Int:     bits.UintSize,\n", New: "\treflect.Int:     64,\n", Rule: "R03.3", Key: "bitlen/Int/platform-dependent"},
	)
}

func init() {
	addMutants(
		mutant{Name: "benign-recover-through-local", Prop: "C06", File: "interp/run.go", Old: "\t\tf.recovered = recover()\n\t\tdeferred := f.deferred\n", New: "\t\tr := recover()\n\t\tf.recovered = r\n\t\tdeferred := f.deferred\n", Benign: true},
		mutant{Name: "repanic-with-stale-local", Prop: "C06", File: "interp/run.go", Old: "\t\tf.recovered = recover()\n\t\tdeferred := f.deferred\n", New: "\t\tr := recover()\n\t\tf.recovered = r\n\t\tdeferred := f.deferred\n", More: [][2]string{{"\t\t\tf.mutex.Unlock()\n\t\t\tpanic(f.recovered)", "\t\t\tf.mutex.Unlock()\n\t\t\tpanic(r)"}}, Rule: "R06.4", Key: "runCfg/unwind/repanic"},
		mutant{Name: "fixarg-skips-reference-kinds", Prop: "C06", File: "interp/run.go", Old: "\tif !v.CanSet() {\n\t\treturn v\n\t}\n\tc := reflect.New(v.Type()).Elem()", New: "\tif !v.CanSet() {\n\t\treturn v\n\t}\n\tswitch v.Kind() {\n\tcase reflect.Chan, reflect.Map, reflect.Ptr, reflect.Slice:\n\t\treturn v\n\t}\n\tc := reflect.New(v.Type()).Elem()", Rule: "R06.3", Key: "fixArg/copies-every-settable-value"},
		mutant{Name: "smallest-float-truncated", Prop: "C14", File: "stdlib/go1_22_math.go", Old: "\"SmallestNonzeroFloat32\": reflect.ValueOf(constant.MakeFromLiteral(\"1.40129846432481707092372958328991613128026194187651577175706828388979108268586060148663818836212158203125e-45\"", New: "\"SmallestNonzeroFloat32\": reflect.ValueOf(constant.MakeFromLiteral(\"1.401298464324817070923729583289916131280261942e-45\"", Rule: "R14.1", Key: "math/math/SmallestNonzeroFloat32"},
		mutant{Name: "watcher-waits-for-goroutine", Prop: "C09", File: "interp/program.go", Old: "\tcase <-ctx.Done():\n\t\tinterp.stop()\n\t\treturn reflect.Value{}, ctx.Err()", New: "\tcase <-ctx.Done():\n\t\tinterp.stop()\n\t\t<-done\n\t\treturn reflect.Value{}, ctx.Err()", Rule: "R09.4", Key: "ExecuteWithContext/watcher"},
		mutant{Name: "args-default-on-empty", Prop: "C13", File: "interp/interp.go", Old: "if i.opt.args = options.Args; i.opt.args == nil {", New: "if i.opt.args = options.Args; len(i.opt.args) == 0 {", Rule: "R13.5", Key: "New/args-default"},
		mutant{Name: "select-append-in-place", Prop: "C08", File: "interp/run.go", Old: "\t\tcases := make([]reflect.SelectCase, nbClause+1)\n\t\tcopy(cases, dirs)\n", New: "\t\tcases := append(dirs[:nbClause], reflect.SelectCase{})\n", Rule: "R08.1", Key: "_select/captured:dirs"},
	)
}

// Pure renames of the unexported anchor functions: every property's check must stay silent.
func init() {
	renames := []struct {
		name  string
		files []string
		old   string
		new   string
	}{
		{"runCfg", []string{"interp/interp.go", "interp/run.go"}, "runCfg", "execLoop"},
		{"newFrame", []string{"interp/interp.go", "interp/run.go"}, "newFrame", "mkFrame"},
		{"importSrc", []string{"interp/gta.go", "interp/interp.go", "interp/program.go", "interp/src.go"}, "importSrc", "loadSourcePackage"},
		{"runid", []string{"interp/interp.go", "interp/run.go", "interp/program.go", "interp/src.go"}, "runid", "generation"},
		{"setrunid", []string{"interp/interp.go", "interp/program.go", "interp/src.go"}, "setrunid", "attachToRun"},
		{"stop", []string{"interp/interp.go", "interp/program.go"}, "stop", "cancelRun"},
		{"fixStdlib", []string{"interp/use.go"}, "fixStdlib", "patchStdlib"},
		{"resizeFrame", []string{"interp/interp.go", "interp/program.go", "interp/src.go"}, "resizeFrame", "growGlobals"},
		{"gtaRetry", []string{"interp/gta.go", "interp/program.go", "interp/src.go"}, "gtaRetry", "gtaFixpoint"},
		{"genGlobalVars", []string{"interp/cfg.go", "interp/program.go", "interp/src.go"}, "genGlobalVars", "orderGlobals"},
	}
	props := []string{"C01", "C06", "C08", "C09", "C10", "C11", "C12", "C13", "C15", "C16", "C17", "C19", "C05", "C02", "C03"}
	for _, rn := range renames {
		var rs [][3]string
		for _, f := range rn.files {
			rs = append(rs, [3]string{f, rn.old, rn.new})
		}
		for _, p := range props {
			addMutants(mutant{Name: "benign-rename-" + rn.name, Prop: p, File: rn.files[0], Rename: rs, Benign: true})
		}
	}
}
