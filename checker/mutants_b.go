package main

// Mutants added in the fifth round (repairs D56-..., rules added after the round-5 seeds).
func init() {
	addMutants(
		// D56 reverted, one operator at a time
		mutant{Name: "comparison-folder-dropped-from-the-table", Prop: "C03", File: "interp/cfg.go", Old: "\taLower:        lowerConst,\n", New: "", Rule: "R03.12", Key: "binary/<"},
		mutant{Name: "comparison-folder-with-the-wrong-token", Prop: "C03", File: "interp/cfg.go", Old: "func lowerConst(n *node)        { compareConst(n, token.LSS) }", New: "func lowerConst(n *node)        { compareConst(n, token.LEQ) }", Rule: "R03.1", Key: "aLower/lowerConst"},
		mutant{Name: "logical-or-not-folded", Prop: "C03", File: "interp/cfg.go", Old: "\t\t\tsetFNext(n.child[0], n.child[1].start)\n\t\t\tn.child[1].tnext = n\n\t\t\tn.typ = n.child[0].typ\n\t\t\tn.typ.TypeOf() // Force compute of reflection type.\n\t\t\tif logicalConst(n); n.rval.IsValid() {\n\t\t\t\t// The operands are constants, and so is the result.\n\t\t\t\tn.gen = nop\n\t\t\t\tn.findex = notInFrame\n\t\t\t} else {\n\t\t\t\tn.findex = sc.add(n.typ)\n\t\t\t}\n", New: "\t\t\tsetFNext(n.child[0], n.child[1].start)\n\t\t\tn.child[1].tnext = n\n\t\t\tn.typ = n.child[0].typ\n\t\t\tn.findex = sc.add(n.typ)\n", Rule: "R03.12", Key: "binary/||"},
		// D57 reverted for binary expressions
		mutant{Name: "typed-constant-arithmetic-left-to-the-folders", Prop: "C03", File: "interp/cfg.go", Old: "\t\t\t\tn.typ.TypeOf() // Force compute of reflection type.\n\t\t\t\tif err = check.constExpr(n); err != nil {\n\t\t\t\t\tbreak\n\t\t\t\t}\n\t\t\t\tconstOp[n.action](n) // Compute a constant result now rather than during exec.\n", New: "\t\t\t\tn.typ.TypeOf() // Force compute of reflection type.\n\t\t\t\tconstOp[n.action](n) // Compute a constant result now rather than during exec.\n", Rule: "R03.13", Key: "Interpreter.cfg/binaryExpr"},
		mutant{Name: "exact-check-error-not-leaving", Prop: "C03", File: "interp/cfg.go", Old: "\t\t\t\tn.typ.TypeOf() // init reflect type\n\t\t\t\tif err = check.constExpr(n); err != nil {\n\t\t\t\t\tbreak\n\t\t\t\t}\n", New: "\t\t\t\tn.typ.TypeOf() // init reflect type\n\t\t\t\tif err = check.constExpr(n); err != nil {\n\t\t\t\t\terr = nil\n\t\t\t\t}\n", Rule: "R03.13", Key: "Interpreter.cfg/unaryExpr"},
		mutant{Name: "benign-exact-check-in-two-statements", Prop: "C03", File: "interp/cfg.go", Old: "\t\t\t\tn.typ.TypeOf() // init reflect type\n\t\t\t\tif err = check.constExpr(n); err != nil {\n\t\t\t\t\tbreak\n\t\t\t\t}\n", New: "\t\t\t\tn.typ.TypeOf() // init reflect type\n\t\t\t\terr = check.constExpr(n)\n\t\t\t\tif err != nil {\n\t\t\t\t\tbreak\n\t\t\t\t}\n", Benign: true},
		// D58 reverted
		mutant{Name: "constant-without-value-accepted", Prop: "C03", File: "interp/cfg.go", Old: "\t\t\t\tif n.anc.kind == constDecl && !src.rval.IsValid() {\n\t\t\t\t\terr = src.cfgErrorf(\"initializer of constant %s is not a constant\", dest.ident)\n\t\t\t\t\tbreak\n\t\t\t\t}\n", New: "", Rule: "R03.12", Key: "cfg/constant-symbol-has-a-value"},
	)
}
