package main

import (
	"go/ast"
	"go/types"
	"strings"
	"sync"

	"golang.org/x/tools/go/ssa"
)

// Role-based anchor resolution. The rules refer to a handful of unexported functions of
// package interp by their historical names (runCfg, newFrame, importSrc, ...). A pure rename
// must not fail a check, so when a function of that name is missing it is looked up by role
// (signature and what it calls), and every by-name lookup and callee-key comparison goes
// through the alias table built here. An anchor that cannot be resolved either way is still
// a failure of the check.

var (
	aliasMu  sync.RWMutex
	keyAlias = map[*types.Package]map[string]string{} // canonical "interp.X" key -> actual key, per loaded package
	revAlias = map[*types.Package]map[string]string{} // actual key -> canonical key
	// nameCanon maps the current "Recv.name" of a renamed anchor function to its historical one;
	// consulted by funcName so that construct keys and exemption tables stay stable under renames.
	nameCanon = map[string]string{}
)

func canonFuncName(name string) string {
	aliasMu.RLock()
	defer aliasMu.RUnlock()
	if c, ok := nameCanon[name]; ok {
		return c
	}
	return name
}

// canonKey maps the key of a renamed anchor function back to its historical name, so that
// rules written against the historical names keep working after a pure rename.
func canonKey(pkg *types.Package, key string) string {
	if pkg == nil {
		return key
	}
	aliasMu.RLock()
	defer aliasMu.RUnlock()
	if m := revAlias[pkg]; m != nil {
		if c, ok := m[key]; ok {
			return c
		}
	}
	return key
}

func aliasFor(pkg *types.Package, key string) string {
	aliasMu.RLock()
	defer aliasMu.RUnlock()
	if m := keyAlias[pkg]; m != nil {
		if a, ok := m[key]; ok {
			return a
		}
	}
	return key
}

// canonicalName returns "Recv.name" for an alias-resolved canonical name.
func (ic *IC) resolveName(name string) string {
	key := "interp." + name
	a := aliasFor(ic.Pk.Types, key)
	return strings.TrimPrefix(a, "interp.")
}

type roleSpec struct {
	name string // canonical "Recv.name" or "name"
	find func(ic *IC) *FuncInfo
}

func sigString(f *types.Func) string {
	sig := f.Type().(*types.Signature)
	var ps, rs []string
	for i := 0; i < sig.Params().Len(); i++ {
		ps = append(ps, shortKey(types.TypeString(sig.Params().At(i).Type(), nil)))
	}
	for i := 0; i < sig.Results().Len(); i++ {
		rs = append(rs, shortKey(types.TypeString(sig.Results().At(i).Type(), nil)))
	}
	recv := ""
	if sig.Recv() != nil {
		recv = shortKey(types.TypeString(sig.Recv().Type(), nil)) + "."
	}
	return recv + "(" + strings.Join(ps, ",") + ")(" + strings.Join(rs, ",") + ")"
}

func callsAny(ic *IC, fi *FuncInfo, keys ...string) bool {
	found := false
	ast.Inspect(fi.Decl.Body, func(n ast.Node) bool {
		if c, ok := n.(*ast.CallExpr); ok {
			if o := calleeOf(ic.Info, c); o != nil {
				k := shortKey(objKey(o))
				for _, w := range keys {
					if k == w {
						found = true
					}
				}
			}
		}
		return true
	})
	return found
}

// uniqueBy returns the only function satisfying pred, or nil.
func uniqueBy(ic *IC, pred func(fi *FuncInfo) bool) *FuncInfo {
	var out *FuncInfo
	n := 0
	for _, name := range sortedKeys(ic.F) {
		fi := ic.F[name]
		if fi.Decl.Body == nil || fi.Obj == nil {
			continue
		}
		if pred(fi) {
			out = fi
			n++
		}
	}
	if n == 1 {
		return out
	}
	return nil
}

var roleSpecs = []roleSpec{
	{"runCfg", func(ic *IC) *FuncInfo {
		// the function containing the execution loops
		seen := map[*FuncInfo]int{}
		for _, l := range findExecLoops(ic) {
			seen[l.fn]++
		}
		var best *FuncInfo
		for f, n := range seen {
			if best == nil || n > seen[best] {
				best = f
			}
		}
		return best
	}},
	{"newFrame", func(ic *IC) *FuncInfo {
		return uniqueBy(ic, func(fi *FuncInfo) bool { return sigString(fi.Obj) == "(*interp.frame,int,uint64)(*interp.frame)" })
	}},
	{"frame.runid", func(ic *IC) *FuncInfo {
		return uniqueBy(ic, func(fi *FuncInfo) bool {
			return sigString(fi.Obj) == "*interp.frame.()(uint64)" && callsAny(ic, fi, "sync/atomic.LoadUint64")
		})
	}},
	{"frame.setrunid", func(ic *IC) *FuncInfo {
		return uniqueBy(ic, func(fi *FuncInfo) bool {
			return sigString(fi.Obj) == "*interp.frame.(uint64)()" && callsAny(ic, fi, "sync/atomic.StoreUint64")
		})
	}},
	{"frame.clone", func(ic *IC) *FuncInfo {
		return uniqueBy(ic, func(fi *FuncInfo) bool { return sigString(fi.Obj) == "*interp.frame.()(*interp.frame)" })
	}},
	{"Interpreter.runid", func(ic *IC) *FuncInfo {
		return uniqueBy(ic, func(fi *FuncInfo) bool {
			return sigString(fi.Obj) == "*interp.Interpreter.()(uint64)" && callsAny(ic, fi, "sync/atomic.LoadUint64")
		})
	}},
	{"Interpreter.stop", func(ic *IC) *FuncInfo {
		return uniqueBy(ic, func(fi *FuncInfo) bool {
			return sigString(fi.Obj) == "*interp.Interpreter.()()" && callsAny(ic, fi, "sync/atomic.AddUint64")
		})
	}},
	{"Interpreter.run", func(ic *IC) *FuncInfo {
		return uniqueBy(ic, func(fi *FuncInfo) bool {
			return sigString(fi.Obj) == "*interp.Interpreter.(*interp.node,*interp.frame)()"
		})
	}},
	{"Interpreter.importSrc", func(ic *IC) *FuncInfo {
		return uniqueBy(ic, func(fi *FuncInfo) bool {
			return strings.HasPrefix(sigString(fi.Obj), "*interp.Interpreter.(string,string,bool)") && callsAny(ic, fi, "io/fs.ReadDir")
		})
	}},
	{"Interpreter.cfg", func(ic *IC) *FuncInfo {
		return uniqueBy(ic, func(fi *FuncInfo) bool {
			return sigString(fi.Obj) == "*interp.Interpreter.(*interp.node,*interp.scope,string,string)([]*interp.node,error)"
		})
	}},
	{"Interpreter.gta", func(ic *IC) *FuncInfo {
		return uniqueBy(ic, func(fi *FuncInfo) bool {
			return sigString(fi.Obj) == "*interp.Interpreter.(*interp.node,string,string,string)([]*interp.node,error)"
		})
	}},
	{"Interpreter.gtaRetry", func(ic *IC) *FuncInfo {
		return uniqueBy(ic, func(fi *FuncInfo) bool {
			return sigString(fi.Obj) == "*interp.Interpreter.([]*interp.node,string,string)(error)"
		})
	}},
	{"Interpreter.resizeFrame", func(ic *IC) *FuncInfo {
		// the unexported method of Interpreter that stores a fresh slice into frame.data
		dataFld := ic.field("frame", "data")
		return uniqueBy(ic, func(fi *FuncInfo) bool {
			if sigString(fi.Obj) != "*interp.Interpreter.()()" {
				return false
			}
			stores := false
			ast.Inspect(fi.Decl.Body, func(n ast.Node) bool {
				if as, ok := n.(*ast.AssignStmt); ok {
					for _, l := range as.Lhs {
						if selField(ic.Info, l) == dataFld && dataFld != nil {
							stores = true
						}
					}
				}
				return true
			})
			return stores
		})
	}},
	{"genGlobalVars", func(ic *IC) *FuncInfo {
		return uniqueBy(ic, func(fi *FuncInfo) bool {
			return sigString(fi.Obj) == "([]*interp.node,*interp.scope)(*interp.node,error)" && !strings.Contains(fi.Obj.Name(), "Decl")
		})
	}},
	{"genRun", func(ic *IC) *FuncInfo {
		return uniqueBy(ic, func(fi *FuncInfo) bool {
			return sigString(fi.Obj) == "(*interp.node)(error)" && callsAny(ic, fi, "interp.node.Walk")
		})
	}},
	{"fixStdlib", func(ic *IC) *FuncInfo {
		fi, _ := fixStdlibOverrides(ic, newReport("roles"))
		return fi
	}},
}

// anchorSigs: the signatures (as printed by sigString) of the remaining unexported functions
// the rules refer to by name. When one of them is missing, the only function with that
// signature that is not itself another anchor takes its place (a pure rename, or a rename
// that is part of a larger edit, must not make the check fail for lack of an anchor).
// Functions whose signature is shared by many others (generators func(*node), predicates)
// are resolved through the tables that register them where possible.
var anchorSigs = map[string]string{
	"genGlobalVarDecl":         "([]*interp.node,*interp.scope)(*interp.node,error)",
	"getVarDependencies":       "(*interp.node,*interp.scope)([]*interp.node)",
	"previousRoot":             "(io/fs.FS,string,string)(string,error)",
	"getWrapper":               "(*interp.node,reflect.Type)(reflect.Type)",
	"copyNode":                 "(*interp.node,*interp.node,bool)(*interp.node)",
	"compDefineX":              "(*interp.scope,*interp.node)(error)",
	"arrayDeref":               "(*interp.itype)(*interp.itype)",
	"skipFile":                 "(*go/build.Context,string,bool)(bool)",
	"getBinValue":              "(func(*interp.itype) reflect.Type,func(*interp.frame) reflect.Value,*interp.frame)(reflect.Value)",
	"typeDefined":              "(*interp.itype,*interp.itype)(bool)",
	"typecheck.builtin":        "interp.typecheck.(string,*interp.node,[]*interp.node,bool)(error)",
	"Interpreter.pkgDir":       "*interp.Interpreter.(string,string,string)(string,string,error)",
	"Interpreter.parse":        "*interp.Interpreter.(string,string,bool)(go/ast.Node,error)",
	"Interpreter.initScopePkg": "*interp.Interpreter.(string,string)(*interp.scope)",
	"Debugger.exec":            "*interp.Debugger.(*interp.node,*interp.frame)(bool)",
	"itype.methods":            "*interp.itype.()(interp.methodSet)",
}

// generator anchors registered in the action table: historical name -> action constant
var anchorActions = map[string]string{"assign": "aAssign", "_range": "aRange", "_return": "aReturn"}

func init() {
	for name, sig := range anchorSigs {
		name, sig := name, sig
		roleSpecs = append(roleSpecs, roleSpec{name, func(ic *IC) *FuncInfo {
			taken := map[string]bool{}
			for n := range anchorSigs {
				taken[n] = true
			}
			for _, rs := range roleSpecs {
				taken[rs.name] = true
			}
			return uniqueBy(ic, func(fi *FuncInfo) bool {
				return sigString(fi.Obj) == sig && !taken[rawFuncName(fi.Decl)]
			})
		}})
	}
	for name, act := range anchorActions {
		name, act := name, act
		roleSpecs = append(roleSpecs, roleSpec{name, func(ic *IC) *FuncInfo {
			// builtin = [...]bltnGenerator{ aX: f, ... }
			var out *FuncInfo
			for _, f := range ic.Pk.Syntax {
				ast.Inspect(f, func(n ast.Node) bool {
					kv, ok := n.(*ast.KeyValueExpr)
					if !ok {
						return true
					}
					k, ok1 := kv.Key.(*ast.Ident)
					v, ok2 := kv.Value.(*ast.Ident)
					if ok1 && ok2 && k.Name == act {
						if fo, ok := ic.Info.Uses[v].(*types.Func); ok {
							if fi := ic.G.Funcs[fo]; fi != nil {
								out = fi
							}
						}
					}
					return true
				})
			}
			return out
		}})
	}
}

// resolveRoles fills the alias table of a freshly loaded interp package.
func resolveRoles(ic *IC) {
	m := map[string]string{}
	for _, rs := range roleSpecs {
		if fi := ic.F[rs.name]; fi != nil && fi.Decl.Body != nil {
			continue // present under its historical name
		}
		fi := rs.find(ic)
		if fi == nil {
			continue // unresolved: the rules report the missing anchor
		}
		actual := rawFuncName(fi.Decl)
		m["interp."+rs.name] = "interp." + actual
		// make by-name lookups work (the function is indexed under its historical name only)
		delete(ic.F, actual)
		ic.F[rs.name] = fi
	}
	rev := map[string]string{}
	for c, a := range m {
		rev[a] = c
	}
	aliasMu.Lock()
	keyAlias[ic.Pk.Types] = m
	revAlias[ic.Pk.Types] = rev
	for c, a := range m {
		nameCanon[strings.TrimPrefix(a, "interp.")] = strings.TrimPrefix(c, "interp.")
	}
	aliasMu.Unlock()
	ic.Aliases = m
}

// ssaFunc returns the SSA function for the package-level function historically named name.
func (ic *IC) ssaFunc(name string) *ssa.Function {
	return ic.SP.Func(ic.resolveName(name))
}

// ssaMeth returns the SSA method historically named typ.name.
func (ic *IC) ssaMeth(typ, name string) *ssa.Function {
	actual := ic.resolveName(typ + "." + name)
	if i := strings.Index(actual, "."); i >= 0 {
		return ssaMethod(ic.SP, actual[:i], actual[i+1:])
	}
	return ssaMethod(ic.SP, typ, name)
}
